/-
  PygModel.TreeTable — model of `tree_to_table(tree, pattern)` (src/pyg_base/_tree.py:13-82, `leaf = False`)
  and `table_to_tree(None, pattern, rows)` (src/pyg_base/_table_to_tree.py:7-39).  A pattern is a list of
  segments: a literal key or a wildcard `%name`.  A row is an insertion-ordered dict name ↦ value.
  Tied to the code by correspondence (driver ops `totable` / `totree`, C15 cases); the inverse law is proved in
  PygProofs/Props/C15.lean (`table_tree_inverse`, `tree_table_inverse`).
-/
import PygModel.Tree

namespace Pyg.TreeTable
open Pyg Pyg.DA Pyg.Tree

inductive Seg where
  | lit (s : String)
  | wild (name : String)
  deriving Repr, DecidableEq

abbrev Row := List (String × Val)

/-- `pattern.split('/')`, `%name` = wildcard -/
def parsePattern (s : String) : List Seg :=
  (s.splitOn "/").map fun p => if p.startsWith "%" then .wild (p.drop 1).toString else .lit p

/-- `tree_to_table(tree, pattern)`; recursion on the pattern -/
def toTable : List Seg → Val → List Row
  | [], _ => [[]]
  | .wild n :: rest, .dict kvs =>
      kvs.flatMap fun kv => (toTable rest kv.2).map (DA.set n (.cell (.str kv.1)))     -- `_update(rows, {name: k})`
  | .lit s :: rest, .dict kvs =>
      match lookup s kvs with
      | some v => toTable rest v
      | none => []
  | [.wild n], leaf => [[(n, leaf)]]
  | [.lit s], leaf => if leaf = .cell (.str s) then [[]] else []
  | _ :: _ :: _, _ => []

/-- the item `_table_to_tree` writes for one row: `[d[p[1:]] if p.startswith('%') else p for p in path]`;
`KeyError` for an unbound name; keys must be strings in the model (`TypeError`-free inputs only) -/
def rowItem (pat : List Seg) (row : Row) : Res (Path × Val) := do
  let vals ← pat.mapM fun seg => match seg with
    | .lit s => pure (Val.cell (.str s))
    | .wild n => match lookup n row with
      | some v => pure v
      | none => throw Err.key
  match vals.reverse with
  | [] => throw Err.value
  | v :: rp =>
    let path ← rp.reverse.mapM fun x => match x with
      | .cell (.str s) => pure s
      | _ => throw Err.other
    pure (path, v)

/-- `table_to_tree(None, pattern, rows)`: successive `_tree_setitem` calls (no duplicate check) -/
def toTree (pat : List Seg) (rows : List Row) : Res (List (String × Val)) :=
  rows.foldlM (fun acc row => do
    let (p, v) ← rowItem pat row
    if p.isEmpty then throw Err.value else pure (setKVs acc p v [])) []

/-- `table_to_tree(tree, pattern, rows, base = type(tree))` on a BASE tree (`_table_to_tree.py:31-38`): the same loop started from
(a branch-copy of) `tree`; `toTree` is the case `tree = None`.  The pure model returns the new items; that the caller's tree is
not written is the business of the heap model (`TreeHeap.tableToTreeH`). -/
def toTreeOn (base : List (String × Val)) (pat : List Seg) (rows : List Row) : Res (List (String × Val)) :=
  rows.foldlM (fun acc row => do
    let (p, v) ← rowItem pat row
    if p.isEmpty then throw Err.value else pure (setKVs acc p v [])) base

end Pyg.TreeTable
