/-
  PygModel.Bump — model of `dt_bump` (src/pyg_base/_dates.py:338-428) on naive datetimes.

  A datetime is an `Int`: microseconds since 0001-01-01T00:00:00 (the wire format `T:<us>`), so
  `t + timedelta` is integer addition.  The integer kernels are NOT hand-written: the business-day block
  (`Gen.bOff`), the month overflow (`Gen.ym`, `Gen.ymd`), the unit table (`Gen.bumpUnit`), the named tenors and
  the unit letters of the `period` regex are generated from the current source text (lean/PygGen/*.lean).
  Library behaviour assumed here and sampled by the correspondence check: `datetime` arithmetic and field
  access = `Pyg.Greg`; `datetime(y,m,1)` raises ValueError outside year 1..9999; date arithmetic leaving
  [0001-01-01, 9999-12-31] raises OverflowError; `re` matching of the `period` pattern; `str.lower` on ASCII.
  Not modelled: time zones, relativedelta, timeseries.  Text left over after the last period token is tried by the code as a
  time-zone name (`tz_convert(t, leftover)`, line 423: `'1dUTC'`, `'1best'`, `'1bLondon'` give a tz-AWARE result; a leading blank
  already defeats it: `'1d utc'` raises) and rejected with ValueError otherwise.  Which names `as_tz` accepts depends on the pytz
  data base and on TODAY's date (`tzones()` adds `tzname(now)`, so `BST` / `GMT` come and go with the season): no static function
  of the text.  The model answers ValueError for EVERY leftover (`Props.C09.tenor_then_leftover`); that is the code's behaviour
  exactly when the leftover is not a zone name — an assumption of the correspondence (generators keep away from zone names; a
  tz-aware reply of the code never compares equal to a model reply).  tz-aware START datetimes are outside the model as well:
  probes show wall-clock arithmetic with the tzinfo object carried along for d/w/h/n/s/b/int/timedelta and a NAIVE midnight for m/q/y.
  Core Lean only.
-/
import PygModel.Basic
import PygModel.Greg
import PygGen.Ym
import PygGen.BDay
import PygGen.Tables

namespace Pyg.Bump
open Pyg Pyg.Gen

/-- microseconds per day -/
def DAYUS : Int := 86400000000

/-- first instant after `datetime.max`'s day: 9999-12-31 is ordinal 3652059 -/
def MAXUS : Int := 3652059 * 86400000000

/-- `t.toordinal()` -/
def ordOf (t : Int) : Int := t / DAYUS + 1

/-- time of day in microseconds -/
def todOf (t : Int) : Int := t % DAYUS

/-- weekday of an ordinal: Monday = 0 (`Greg.weekday` on integers) -/
def wd (o : Int) : Int := (o + 6) % 7

/-- `t.weekday()` -/
def wdOf (t : Int) : Int := wd (ordOf t)

/-- midnight of ordinal `o` -/
def ofOrd (o : Int) : Int := (o - 1) * DAYUS

/-- `datetime.datetime(y, m, d)` at midnight for a valid date -/
def mkDate (y m d : Nat) : Int := ofOrd (Greg.ord y m d)

/-- `(t.year, t.month, t.day)` -/
def ymdOf (t : Int) : Greg.YMD := Greg.fromOrd (ordOf t).toNat

/-- the result of datetime arithmetic: OverflowError ("date value out of range") outside the representable range -/
def checkRange (t : Int) : Res Int := if 0 ≤ t ∧ t < MAXUS then .ok t else .error .other

/-- `datetime.datetime(p.y, p.m, 1) + p.off * DAY` (line 220): the constructor raises ValueError unless
`1 ≤ year ≤ 9999` and `1 ≤ month ≤ 12` -/
def mkMonthPlus (p : MonthPlus) : Res Int :=
  if 1 ≤ p.y ∧ p.y ≤ 9999 ∧ 1 ≤ p.m ∧ p.m ≤ 12 then
    checkRange (ofOrd ((Greg.ord p.y.toNat p.m.toNat 1 : Nat) + p.off))
  else .error .value

/-- `_ymd(y, m, d)` -/
def ymdDate (y m d : Int) : Res Int := mkMonthPlus (Gen.ymd y m d)

/-- the business-day block constructs one datetime per update of `t` (`t + (7-wday)*DAY`, `t + DAY*(7*w)`, `t += DAY*d`);
each of them raises OverflowError outside the representable range, also when the final date exists
(`dt_bump(datetime(1,1,3), '-1b')`: the intermediate `t - 7 days` does not).  `offs` are the offsets of these datetimes from
the start, in days (`Gen.bOffPath`); the result is the last one. -/
def walkDays (t : Int) : Int → List Int → Res Int
  | cur, [] => .ok cur
  | _, k :: ks => (checkRange (t + k * DAYUS)).bind fun t' => walkDays t t' ks

/-- one period token applied to `t` (lines 391-418; which letter does what is `Gen.bumpUnit`) -/
def applyStep (t : Int) : Step → Res Int
  | .days k => checkRange (t + k * DAYUS)
  | .micros k => checkRange (t + k)
  | .ymdShift dy dm =>
      let p := ymdOf t
      ymdDate ((p.y : Int) + dy) ((p.m : Int) + dm) (p.d : Int)
  | .bday n => walkDays t t (Gen.bOffPath (wdOf t) n)

/-! ### the tokenizer: `period = ^[-+]{0,1}[0-9]+[<units>]{1}` applied repeatedly (lines 386-390) -/

def spanDigits : List Char → List Char × List Char
  | [] => ([], [])
  | c :: cs => if c.isDigit then ((spanDigits cs).1.cons c, (spanDigits cs).2) else ([], c :: cs)

/-- `int(<digits>)` -/
def digitsVal (ds : List Char) : Nat := ds.foldl (fun a c => 10 * a + (c.toNat - 48)) 0

/-- the optional sign `[-+]{0,1}`: (is it a minus, the text after it) -/
def signSplit : List Char → Bool × List Char
  | '-' :: r => (true, r)
  | '+' :: r => (false, r)
  | cs => (false, cs)

/-- `period.search(bump)`: the token at the head of the text, as `(int(bmp[:-1]), bmp[-1], bump[len(bmp):])` -/
def nextToken (cs : List Char) : Option (Int × Char × List Char) :=
  let sb := signSplit cs
  match spanDigits sb.2 with
  | ([], _) => none
  | (_, []) => none
  | (ds, u :: rest) =>
    if u ∈ Gen.periodUnits then some (if sb.1 then - (digitsVal ds : Int) else (digitsVal ds : Int), u, rest)
    else none

/-- the `while period.search(bump) is not None` loop followed by the leftover test (lines 388-423).
`fuel` only makes the recursion structural; `cs.length + 1` always suffices (`Bump.loop_fuel` in PygProofs/Lemmas/TokenLemmas.lean). -/
def loop : Nat → List Char → Int → Res Int
  | 0, _, _ => .error .other
  | fuel + 1, cs, t =>
    match nextToken cs with
    | some (n, c, rest) =>
      match Gen.bumpUnit c n with
      | some st => (applyStep t st).bind (loop fuel rest)
      | none => loop fuel rest t                 -- a unit letter without a branch leaves t unchanged
    | none =>
      if cs.isEmpty then .ok t
      else .error .value      -- leftover text is tried as a time zone (line 423): ValueError unless `as_tz` knows the name (header)

def lower (s : String) : List Char := s.toList.map Char.toLower

/-- `bump = _bumps.get(bump.lower(), bump.lower())` -/
def resolveNamed (cs : List Char) : List Char :=
  match Gen.namedTenors.find? (fun kv => kv.1.toList == cs) with
  | some kv => kv.2.toList
  | none => cs

/-- the tokenizer loop with enough fuel for the text -/
def bumpCs (cs : List Char) (t : Int) : Res Int := loop (cs.length + 1) cs t

/-- a string bump -/
def bumpStr (t : Int) (s : String) : Res Int := bumpCs (resolveNamed (lower s)) t

/-- one element of `*bumps` -/
inductive BumpArg where
  | int (n : Int)          -- `t + DAY * n`
  | delta (us : Int)       -- a `datetime.timedelta`
  | str (s : String)
  deriving Repr, Inhabited

def bumpOne (t : Int) : BumpArg → Res Int
  | .int n => checkRange (t + n * DAYUS)
  | .delta us => checkRange (t + us)
  | .str s => bumpStr t s

/-- `dt_bump(t, *bumps)` = `dt(t, *bumps)` for a datetime `t` -/
def dtBump (t : Int) : List BumpArg → Res Int
  | [] => .ok t
  | b :: bs => (bumpOne t b).bind fun t' => dtBump t' bs

/-- `dt(t, *bumps)` for a datetime `t` (lines 560-561): `reduce(dt_bump, args1, t)`, one `dt_bump` call per argument -/
def dtReduce (t : Int) : List BumpArg → Res Int
  | [] => .ok t
  | b :: bs => (dtBump t [b]).bind fun t' => dtReduce t' bs

/-- `is_period(bump)`: the `period` regex finds a token at the head of the text AS WRITTEN (the regex lists both cases) -/
def isPeriod (s : String) : Bool := (nextToken s.toList).isSome

/-- `dt(bump)` for a period string (lines 573-574): `dt_bump(dt(0), bump)` where `dt(0)` is today at midnight.  Text that is
not a period (e.g. a named tenor: `is_period('spot')` is False) goes to the date parser instead (`none` here: see C04). -/
def dtOfBump (today : Int) (s : String) : Option (Res Int) :=
  if isPeriod s then some (dtBump today [.str s]) else none

end Pyg.Bump
