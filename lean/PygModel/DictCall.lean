/-
  PygModel.DictCall — model of `Dict.__call__` (src/pyg_base/_dict.py:79-94) and `Dict.apply` (:68-73).

      res = self.copy(); res.update(non-callables)
      callables = {k: f}
      while len(callables) > 1:
          keys = set(callables)
          independent = {k: f  if  not (keys & set(getargs(f)))}
          if not independent: raise ValueError('circular function calling')
          for k, f in independent.items(): res[k] = res.apply(f, key = k)
          callables = callables minus independent
      for k, f in callables.items(): res[k] = res.apply(f, key = k)        # zero or one left

  A callable value is a list of argument names and a function of the argument values
  (`kwargs_support(f)(**params)` passes exactly the declared arguments by name; a declared argument
  that is not a key of `res` raises `TypeError`; the default `key = k` parameter is not modelled:
  generated functions never declare an argument called `key`).  `_postprocess` is the identity.
-/
import PygModel.USet

namespace Pyg.DictCall
open Pyg.DA

variable {V : Type}

structure Fn (V : Type) where
  args : List String
  fn : List V → V

abbrev Env (V : Type) := List (String × V)

/-- `res.apply(f)`: fetch the declared arguments by name, `TypeError` if one is missing -/
def apply (res : Env V) (f : Fn V) : Res V := do
  let vs ← f.args.mapM fun a => match lookup a res with
    | some v => pure v
    | none => throw Err.type
  pure (f.fn vs)

/-- `for k, f in cs: res[k] = res.apply(f)` -/
def evalAll (res : Env V) : List (String × Fn V) → Res (Env V)
  | [] => pure res
  | (k, f) :: cs => do
      let v ← apply res f
      evalAll (set k v res) cs

/-- a callable none of whose arguments is itself a pending callable -/
def independent (keys : List String) (c : String × Fn V) : Bool := c.2.args.all (· ∉ keys)

/-- the `while` loop; `fuel` bounds the number of rounds (`cs.length` suffices: every round that
does not raise removes at least one callable) -/
def loop : Nat → Env V → List (String × Fn V) → Res (Env V)
  | 0, res, cs => evalAll res cs
  | fuel + 1, res, cs =>
    if cs.length ≤ 1 then evalAll res cs
    else
      let keys := cs.map (·.1)
      let ind := cs.filter (independent keys)
      if ind.isEmpty then throw Err.value
      else do
        let res' ← evalAll res ind
        loop fuel res' (cs.filter fun c => !independent keys c)

/-- `d(**kwargs)`: `consts` are the non-callable keyword values, `cs` the callable ones, both in
keyword order -/
def call (d : Env V) (consts : Env V) (cs : List (String × Fn V)) : Res (Env V) :=
  loop cs.length (setAll d consts) cs

end Pyg.DictCall
