/-
  PygModel.Join — model of `dictable._listby`, `dictable.join` (`*`) and `dictable.xor` (`/`)
  (src/pyg_base/_dictable.py:888-902, 1034-1163, 1165-1240), written against the repaired code in
  which grouping and matching both use `cmp(..) == 0` (finding F1: the pinned tree used `==`, which
  disagrees with `cmp` on two distinct NaN objects and made the merge loop spin).

  Structure (as in the code):
    keys of every row  ->  `_listby` = decorate with the row index, `sort`, run-length group
                       ->  the sort-merge *loop* over the two group lists (cursors `l`, `r`)
                       ->  cross product of the row ids of every matched pair of groups
                       ->  column assembly (`cols + lkeys + rkeys + jkeys`, `mode` for `jkeys`).
  Core Lean only (linked into the driver).
-/
import PygModel.TableBasic

namespace Pyg

/-! ### `_listby`: group row indices by key -/

/-- a group: representative key and the indices of the rows holding it -/
abbrev Grp := Val × List Nat

/-- `keys2id = sort(list(zip(keys, range(len(self)))))` (line 890) -/
def sortedKeyIds (keys : List Val) : List (Val × Nat) :=
  keys.zipIdx.mergeSort (fun a b => cmpLe (keyId a) (keyId b))

/-- the loop of lines 891-901.  `prev` starts as `None`, `row` and `res` empty; the final
`res.append((prev, row))` is executed even for an empty table (one group `(None, [])`). -/
def listbyLoop : List (Val × Nat) → Val → List Nat → List Grp → List Grp
  | [], prev, row, res => res ++ [(prev, row)]
  | (key, i) :: rest, prev, row, res =>
    if row.isEmpty || cmp key prev == .eq then listbyLoop rest key (row ++ [i]) res
    else listbyLoop rest key [i] (res ++ [(prev, row)])

/-- `_listby` on the list of per-row keys: `zip(*res)` = (group keys, group row ids) -/
def listbyG (keys : List Val) : List Grp :=
  listbyLoop (sortedKeyIds keys) (.cell .none) [] []

/-! ### the sort-merge loop, shared by `join` and `xor`

Both methods run the same three-phase loop over the cursors `l`, `r`; they differ only in what is
appended to `res` in each phase.  `Emit` records that difference:
  join:          nothing / nothing / `(lxs[l], lids[l], rids[r])`
  xor, mode 0:   `lids[l]` / nothing / nothing        (+ `lids[l:]` after the loop)
  xor, mode 1:   nothing / `rids[r]` / nothing        (+ `rids[r:]` after the loop) -/
structure Emit (β : Type) where
  onL : Grp → List β
  onR : Grp → List β
  onM : Grp → Grp → List β

structure MState (β : Type) where
  l : Nat
  r : Nat
  res : List β

/-- `while l<ls and r<rs and cmp(lxs[l],rxs[r]) == -1: <emit>; l+=1`  (fuel = `ls - l`) -/
def skipL {β} (e : Emit β) (lxs rxs : List Grp) (r : Nat) : Nat → Nat → List β → Nat × List β
  | 0, l, res => (l, res)
  | fuel + 1, l, res =>
    match lxs[l]?, rxs[r]? with
    | some a, some b =>
      if cmp a.1 b.1 = .lt then skipL e lxs rxs r fuel (l + 1) (res ++ e.onL a) else (l, res)
    | _, _ => (l, res)

/-- `while l<ls and r<rs and cmp(lxs[l],rxs[r]) == 1: <emit>; r+=1`  (fuel = `rs - r`) -/
def skipR {β} (e : Emit β) (lxs rxs : List Grp) (l : Nat) : Nat → Nat → List β → Nat × List β
  | 0, r, res => (r, res)
  | fuel + 1, r, res =>
    match lxs[l]?, rxs[r]? with
    | some a, some b =>
      if cmp a.1 b.1 = .gt then skipR e lxs rxs l fuel (r + 1) (res ++ e.onR b) else (r, res)
    | _, _ => (r, res)

/-- one pass through the body of `while l<ls and r<rs:` (lines 1125-1133 / 1221-1232).
`eqTest` is the equality used by the match step: `cmp(..) == 0` in the repaired code. -/
def outerWith {β} (eqTest : Val → Val → Bool) (e : Emit β) (lxs rxs : List Grp)
    (st : MState β) : MState β :=
  let (l, res1) := skipL e lxs rxs st.r (lxs.length - st.l) st.l st.res
  let (r, res2) := skipR e lxs rxs l (rxs.length - st.r) st.r res1
  match lxs[l]?, rxs[r]? with
  | some a, some b =>
    if eqTest a.1 b.1 then ⟨l + 1, r + 1, res2 ++ e.onM a b⟩ else ⟨l, r, res2⟩
  | _, _ => ⟨l, r, res2⟩

def cmpEq (a b : Val) : Bool := cmp a b == .eq

def outer {β} (e : Emit β) (lxs rxs : List Grp) (st : MState β) : MState β :=
  outerWith cmpEq e lxs rxs st

/-- the `while l<ls and r<rs` loop with explicit fuel -/
def mergeLoopWith {β} (eqTest : Val → Val → Bool) (e : Emit β) (lxs rxs : List Grp) :
    Nat → MState β → MState β
  | 0, st => st
  | fuel + 1, st =>
    if st.l < lxs.length ∧ st.r < rxs.length then
      mergeLoopWith eqTest e lxs rxs fuel (outerWith eqTest e lxs rxs st)
    else st

def mergeLoop {β} (e : Emit β) (lxs rxs : List Grp) : Nat → MState β → MState β :=
  mergeLoopWith cmpEq e lxs rxs

/-- the loop as run by the code: from `l = r = 0`, `res = []`; `ls + rs` iterations always suffice
(`Pyg.Props.C02.merge_terminates`) -/
def mergeRun {β} (e : Emit β) (lxs rxs : List Grp) : MState β :=
  mergeLoop e lxs rxs (lxs.length + rxs.length) ⟨0, 0, []⟩

/-! ### join: matched groups and their cross products -/

/-- a matched pair of groups: `(lxs[l], lids[l], rids[r])` -/
abbrev Match := Val × List Nat × List Nat

def joinEmit : Emit Match := ⟨fun _ => [], fun _ => [], fun a b => [(a.1, a.2, b.2)]⟩

def joinMatches (lk rk : List Val) : List Match :=
  (mergeRun joinEmit (listbyG lk) (listbyG rk)).res

/-- `[f(l, r) for l in lid for r in rid]` summed over the matched groups (lines 1144-1162) -/
def expand {α} (ms : List Match) (f : Nat → Nat → α) : List α :=
  ms.flatMap fun g => g.2.1.flatMap fun l => g.2.2.map fun r => f l r

/-- the (left row, right row) index pairs of the result, in result order -/
def joinPairs (lk rk : List Val) : List (Nat × Nat) := expand (joinMatches lk rk) Prod.mk

/-- `sum([[x]*n for x,n in zip(xs,ns)], [])` with `n = len(l)*len(r)` (lines 1137-1138) -/
def keyRows (ms : List Match) : List Val :=
  ms.flatMap fun g => List.replicate (g.2.1.length * g.2.2.length) g.1

/-! ### xor -/

def xorEmit (mode : Nat) : Emit (List Nat) :=
  ⟨fun a => if mode = 0 then [a.2] else [], fun b => if mode = 1 then [b.2] else [], fun _ _ => []⟩

/-- the row ids `sum(res, [])` that `xor` selects: `mode = 0` ids of the left table, `mode = 1` of
the right table (lines 1216-1240) -/
def xorIds (mode : Nat) (lk rk : List Val) : List Nat :=
  let lxs := listbyG lk
  let rxs := listbyG rk
  let st := mergeRun (xorEmit mode) lxs rxs
  if mode = 0 then (st.res ++ (lxs.drop st.l).map (·.2)).flatten
  else (st.res ++ (rxs.drop st.r).map (·.2)).flatten

/-! ### key extraction: `self[by]` for a tuple of column names / callables -/

/-- a row handed to a callable: `dict(zip(keys, row))` -/
abbrev RowDict := List (String × Cell)

/-- one entry of `lcols` / `rcols` -/
inductive KeySpec where
  | col (name : String)
  | fn (f : RowDict → Res Val)

def KeySpec.isCol : KeySpec → Bool
  | .col _ => true
  | .fn _ => false

def Table.rowDict (t : Table) (i : Nat) : RowDict := t.map fun c => (c.1, c.2.getD i .none)

/-- `self[i]` for one entry: a column (KeyError if absent) or `self.apply(f)` -/
def Table.keyCol (t : Table) : KeySpec → Res (List Val)
  | .col k => match t.col? k with
    | some xs => .ok (xs.map .cell)
    | none => .error .key
  | .fn f => (List.range t.nrows).mapM fun i => f (t.rowDict i)

/-- `list(zip(*cols))` -/
def zipCols : List (List Val) → Nat → List Val
  | cols, n => (List.range n).map fun i => .tuple (cols.map fun c => c.getD i (.cell .none))

/-- `self[by]` for a non-empty tuple `by`: one tuple per row -/
def Table.keysOf (t : Table) (specs : List KeySpec) : Res (List Val) := do
  let cols ← specs.mapM t.keyCol
  pure (zipCols cols t.nrows)

/-! ### column bookkeeping (`ulist` arithmetic) -/

def lminus (xs ys : List String) : List String := xs.filter (fun x => !ys.contains x)
def linter (xs ys : List String) : List String := xs.filter (fun x => ys.contains x)

/-- a result table whose cells may be pairs / values computed by `mode` -/
abbrev VTable := List (String × List Val)

def Table.toV (t : Table) : VTable := t.map fun c => (c.1, c.2.map .cell)

def Table.jcellAt (t : Table) (k : String) (i : Nat) : Cell :=
  ((t.col? k).getD []).getD i .none

inductive Mode where
  | pair            -- `None`: the tuple `(lhs, rhs)`
  | left            -- 0 / 'l…'
  | right           -- 1 / 'r…'
  | fn (f : Cell → Cell → Val)

def Mode.apply : Mode → Cell → Cell → Val
  | .pair, a, b => .tuple [.cell a, .cell b]
  | .left, a, _ => .cell a
  | .right, _, b => .cell b
  | .fn f, a, b => f a b

/-- a python value handed over as `mode`: a scalar (None / bool / int / float / str / datetime) or a callable -/
inductive PyMode where
  | val (c : Cell)
  | fn (f : Cell → Cell → Val)

/-- `is_str(mode) and mode[0].lower() == ch` for `ch` = `'l'` / `'r'`.  `none` = the EMPTY string: `mode[0]` raises IndexError
(in `join` only when a shared non-key column exists and some pair matched: not modelled, the driver answers `bad-op`).
`Char.toLower` is ASCII; the only characters python's `str.lower` sends to `l` / `r` are `L` / `R` (assumption). -/
def modeStarts (ch : Char) : Cell → Option Bool
  | .str s => match s.toList with
    | [] => Option.none
    | c :: _ => some (c.toLower == ch)
  | _ => some false

/-- the `if / elif / elif / else` chain of `join` (lines 1192-1205):
`(is_str(mode) and mode[0].lower() == 'l') or mode == 0` → left; `(… == 'r') or mode == 1` → right; `callable(mode)` → apply it;
ANYTHING else (`None`, `'x'`, `2`, `nan`, a datetime) → the pair `(lhs, rhs)`.  `mode == 0` is python `==`: `0`, `0.0`, `-0.0`, `False`. -/
def Mode.ofPy : PyMode → Option Mode
  | .fn f => some (.fn f)
  | .val c => do
      let l ← modeStarts 'l' c
      if l || c.pyEq (.int 0) then some .left else
      let r ← modeStarts 'r' c
      if r || c.pyEq (.int 1) then some .right else some .pair

/-- `mode = 1 if (is_str(mode) and mode[0].lower() == 'r') or mode == 1 else 0` (`xor`, line 1258): everything that is not
`'r…'` / `1` / `1.0` / `True` — `None`, `'x'`, `2` and callables included — means the left table -/
def Mode.xorOfPy : PyMode → Option Nat
  | .fn _ => some 0
  | .val c => do
      let r ← modeStarts 'r' c
      some (if r || c.pyEq (.int 1) then 1 else 0)

/-- name of the joined key column `i` (lines 1104-1110) -/
def joinColNames : List KeySpec → List KeySpec → Res (List String)
  | .col l :: ls, _ :: rs => do let t ← joinColNames ls rs; pure (l :: t)
  | .fn _ :: ls, .col r :: rs => do let t ← joinColNames ls rs; pure (r :: t)
  | .fn _ :: _, .fn _ :: _ => .error .value
  | _, _ => .ok []

def tupleGet (j : Nat) : Val → Val
  | .tuple xs => xs.getD j (.cell .none)
  | v => v

/-- columns `lkeys`, `rkeys`, `jkeys` of the result from the row-id pairs (lines 1142-1162) -/
def joinBody (x y : Table) (cols : List String) (mode : Mode) (ms : List Match) : VTable :=
  let lkeys0 := lminus x.cols cols
  let rkeys0 := lminus y.cols cols
  let jkeys := linter lkeys0 rkeys0
  let lkeys := lminus lkeys0 jkeys
  let rkeys := lminus rkeys0 jkeys
  lkeys.map (fun k => (k, expand ms fun l _ => Val.cell (x.jcellAt k l))) ++
  rkeys.map (fun k => (k, expand ms fun _ r => Val.cell (y.jcellAt k r))) ++
  jkeys.map (fun k => (k, expand ms fun l r => mode.apply (x.jcellAt k l) (y.jcellAt k r)))

/-- `d[k] = v` on an insertion-ordered dict: an existing key keeps its place and takes the new value -/
def dictSet {α} (d : List (String × α)) (k : String) (v : α) : List (String × α) :=
  if d.any (·.1 == k) then d.map (fun c => if c.1 == k then (k, v) else c) else d ++ [(k, v)]

/-- `dict(zip(names, columns))`, the reading `dictable(rows, cols)` gives to the key columns (line 1138):
when two key columns carry one name the later one wins, at the place of the first -/
def dictOf {α} (kvs : List (String × α)) : List (String × α) :=
  kvs.foldl (fun d kv => dictSet d kv.1 kv.2) []

/-- the keyed join when two key columns carry one name (`x.join(y, ['a','a'], ['a','b'])`): the same computation,
the key columns read through `dictOf` (for distinct names `dictOf` is the identity, `dictOf_nodup`, so this is
also what the main branch of `join` computes) -/
def joinDup (x y : Table) (lcols rcols : List KeySpec) (cols : List String) (mode : Mode) : Res VTable := do
  let lk ← x.keysOf lcols
  let rk ← y.keysOf rcols
  let ms := joinMatches lk rk
  let keyCols : VTable := dictOf (cols.zipIdx.map fun (c, j) => (c, (keyRows ms).map (tupleGet j)))
  pure (keyCols ++ joinBody x y cols mode ms)

/-- `x.join(y, lcols, rcols, mode)`; `lcols = none` ⇒ the shared columns, `rcols = none` ⇒ `lcols`.
(Total: the `Option` is kept for the driver's signature.) -/
def join (x y : Table) (lcols rcols : Option (List KeySpec)) (mode : Mode) : Option (Res VTable) :=
  let lcols := lcols.getD ((linter x.cols y.cols).map .col)
  let rcols := rcols.getD lcols
  if lcols.length ≠ rcols.length then some (.error .value) else
  match joinColNames lcols rcols with
  | .error e => some (.error e)
  | .ok cols =>
    if ¬ cols.Nodup then some (joinDup x y lcols rcols cols mode) else
    if cols.isEmpty then
      -- cross join: `lids = [range(len(self))]; rids = [range(len(other))]`
      let ms : List Match := [(.cell .none, List.range x.nrows, List.range y.nrows)]
      some (.ok (joinBody x y cols mode ms))
    else
      some (do
        let lk ← x.keysOf lcols
        let rk ← y.keysOf rcols
        let ms := joinMatches lk rk
        -- (`len(res) == 0` returns the empty table over the same columns: the same value)
        let keyCols : VTable := cols.zipIdx.map fun (c, j) => (c, (keyRows ms).map (tupleGet j))
        pure (keyCols ++ joinBody x y cols mode ms))

/-- `x.xor(y, lcols, rcols, mode)` with `mode ∈ {0, 1}` already decoded (line 1215) -/
def xor (x y : Table) (lcols rcols : Option (List KeySpec)) (mode : Nat) : Res Table :=
  let lcols := lcols.getD ((linter x.cols y.cols).map .col)
  let rcols := rcols.getD lcols
  if lcols.length ≠ rcols.length then .error .value else
  if lcols.isEmpty then .ok x else do
    let lk ← x.keysOf lcols
    let rk ← y.keysOf rcols
    let ids := xorIds mode lk rk
    -- `self[ids]`: an empty id list gives the empty table over the same columns
    pure (if mode = 0 then x.gatherRows ids else y.gatherRows ids)

end Pyg
