/-
  PygModel.SortTable — `dictable.sort(*by)` on a whole TABLE (src/pyg_base/_dictable.py:878-889):
  `keys = self[by]` (the tuples of the key cells of every row), `_, rows = zip(*sort(zip(keys, range(len(self)))))`,
  `type(self)({key: [value[i] for i in rows] for key, value in self.items()})`: EVERY column — the key columns and all others —
  is gathered with the one row permutation `sortIdx keys`.  (C07's `sortIdx` theorems are about the permutation; this file puts the
  table around it, review s2 7a.)
-/
import PygModel.TableBasic

namespace Pyg.Table

/-- the cell of column `c` in row `i` (`none` when the column or the row does not exist) -/
def sortCellAt (t : Table) (c : String) (i : Nat) : Cell := ((t.col? c).getD []).getD i .none

/-- `self[by]` for a tuple of column names: one tuple of key cells per row -/
def sortKeys (t : Table) (by_ : List String) : List Val :=
  (List.range t.nrows).map fun i => .tuple (by_.map fun c => .cell (t.sortCellAt c i))

/-- `d.sort(*by)` for column names `by`: an empty table or no key returns a copy; `KeyError` for a name that is no column -/
def sortBy (t : Table) (by_ : List String) : Res Table :=
  if t.nrows = 0 ∨ by_ = [] then pure t
  else if by_.all (t.cols.contains ·) then pure (t.gatherRows (sortIdx (t.sortKeys by_)))
  else throw Err.key

end Pyg.Table
