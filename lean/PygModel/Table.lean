/-
  PygModel.Table — model of `pyg_base.dictable` (src/pyg_base/_dictable.py) with `_zip.lens/zipper`
  (src/pyg_base/_zip.py), `Dict.__call__/copy` (src/pyg_base/_dict.py:76-94) and
  `dictattr.relabel/__getitem__/__delitem__` (src/pyg_base/_dictattr.py), for property C01.

  A table is an insertion-ordered list of named columns (`Table`, TableBasic.lean).  Mutation through
  `self[...] = ` returns the new table; the history machine `step` keeps a heap of tables.

  Column ORDER of results that the code builds through `dict_concat` (a python `set` order, or `sorted`
  keys) is not modelled: the model keeps the operand's order and the correspondence compares tables as
  dicts.  Row-selecting operations are written as `gatherRows idx` with the code's branch structure,
  broadcasts, empty-result fix-ups and error cases kept around them (DESIGN §4); where the code then hands
  an already rectangular dict back to the constructor (`type(self)({...})`) that call is the identity
  (`Table.finish_rect` in PygProofs/Lemmas/TableLemmas.lean) and is not repeated in the model.
-/
import PygModel.TableBasic

namespace Pyg

/-- `[f x for x in xs]` where `f` may raise: the first error wins (structural, so that proofs can follow it) -/
def mapE {α β ε} (f : α → Except ε β) : List α → Except ε (List β)
  | [] => .ok []
  | x :: xs => match f x with
    | .error e => .error e
    | .ok y => match mapE f xs with
      | .error e => .error e
      | .ok ys => .ok (y :: ys)

/-! ### `_zip.py` -/

/-- `lens(*values)` on the list of `len0(value)`s (src/pyg_base/_zip.py:6-36): 0 without values, the
common length other than 1, 1 if all are 1, `ValueError` when two lengths other than 1 differ. -/
def lens (ls : List Nat) : Except Err Nat :=
  if ls.isEmpty then .ok 0 else
  match ls.filter (· != 1) with
  | [] => .ok 1
  | n :: rest => if rest.all (· == n) then .ok n else .error .value

/-- `value * n if len(value) == 1 else value` -/
def bcast {α} (n : Nat) (v : List α) : List α :=
  match v with
  | [x] => List.replicate n x
  | _ => v

/-- `zipper(*values)` for values that are all lists (src/pyg_base/_zip.py:38-72): `n = lens(..)`, length-1
values are repeated `n` times, then `zip`.  The result has `n` tuples (for `n = 0` `zip` truncates). -/
def zipper {α} (dflt : α) (vs : List (List α)) : Except Err (List (List α)) :=
  match lens (vs.map (·.length)) with
  | .error e => .error e
  | .ok n => .ok ((List.range n).map fun i => vs.map fun v => (bcast n v).getD i dflt)

/-- `zipper(xs, ys)` for two lists of different element types -/
def zipper2 {α β} (xs : List α) (ys : List β) : Except Err (List (α × β)) :=
  match lens [xs.length, ys.length] with
  | .error e => .error e
  | .ok n => .ok ((bcast n xs).zip (bcast n ys))

/-! ### python indexing -/

/-- `xs[i]` for a python int: negative indices count from the end; `none` = IndexError -/
def pyIdx (n : Nat) (i : Int) : Option Nat :=
  if 0 ≤ i ∧ i < n then some i.toNat
  else if i < 0 ∧ -(n : Int) ≤ i then some (i + n).toNat
  else Option.none

/-- the indices selected by `xs[a:b:s]` on a list of length `n`, `s ≠ 0`
(CPython `PySlice_AdjustIndices`) -/
def sliceIdx (n : Nat) (a b : Option Int) (s : Int) : List Nat :=
  let N : Int := n
  if s > 0 then
    let clamp (x : Int) : Int := if x < 0 then max (x + N) 0 else min x N
    let start := match a with | Option.none => 0 | some x => clamp x
    let stop := match b with | Option.none => N | some x => clamp x
    let cnt := if stop > start then ((stop - start + s - 1) / s).toNat else 0
    (List.range cnt).map fun (k : Nat) => (start + (k : Int) * s).toNat
  else
    let clamp (x : Int) : Int := if x < 0 then max (x + N) (-1) else min x (N - 1)
    let start := match a with | Option.none => N - 1 | some x => clamp x
    let stop := match b with | Option.none => -1 | some x => clamp x
    let cnt := if start > stop then ((start - stop + (-s) - 1) / (-s)).toNat else 0
    (List.range cnt).map fun (k : Nat) => (start + (k : Int) * s).toNat

/-- `value[item]` for a slice with step `s ≠ 0` -/
def pySlice (xs : List Cell) (a b : Option Int) (s : Int) : List Cell :=
  (sliceIdx xs.length a b s).map fun i => xs.getD i .none

/-! ### column values, the dict operations on the column store -/

/-- what may be assigned to a column: a scalar or a list / tuple of cells -/
inductive ColVal where
  | one (c : Cell)
  | many (xs : List Cell)
  deriving Repr, Inhabited

/-- `_value` (src/pyg_base/_dictable.py:192-198): `None → [None]`, scalar `→ [scalar]`, list/tuple `→ list` -/
def ColVal.value : ColVal → List Cell
  | .one c => [c]
  | .many xs => xs

namespace Table

def has (t : Table) (k : String) : Bool := t.any (·.1 == k)

/-- `dict.__setitem__`: an existing key keeps its position, a new key is appended -/
def set (t : Table) (k : String) (v : List Cell) : Table :=
  if t.has k then t.map fun c => if c.1 == k then (k, v) else c else t ++ [(k, v)]

/-- `dict.__delitem__` (the caller has checked that the key exists) -/
def erase (t : Table) (k : String) : Table := t.filter (·.1 != k)

/-- `dict(pairs)` / a dict comprehension: later pairs overwrite earlier ones in place -/
def ofPairs (kvs : List (String × List Cell)) : Table := kvs.foldl (fun t kv => t.set kv.1 kv.2) []

/-- `dict.update` -/
def updateWith (t u : Table) : Table := u.foldl (fun t kv => t.set kv.1 kv.2) t

/-- `len(d)` = `lens(*self.values())` (src/pyg_base/_dictable.py:341-342) -/
def len (t : Table) : Except Err Nat := lens (t.map (·.2.length))

/-- lines 335-336 of `__init__`: `n = lens(*kwargs.values())`, length-1 columns are repeated `n` times -/
def finish (t : Table) : Except Err Table :=
  match t.len with
  | .error e => .error e
  | .ok n => .ok (t.map fun c => (c.1, bcast n c.2))

/-- `type(self)([], self.keys())`: the columns without rows -/
def emptyLike (t : Table) : Table := t.map fun c => (c.1, [])

/-- `dictable.get(key)`: the column, or `[None] * len(self)` -/
def getCol (t : Table) (k : String) : List Cell := (t.col? k).getD (List.replicate t.nrows .none)

/-- cell of column `k` in row `i` as a keyword argument: `none` when there is no such column -/
def cellAt (t : Table) (i : Nat) (k : String) : Option Cell := (t.col? k).map (·.getD i .none)

end Table

/-! ### construction (src/pyg_base/_dictable.py:107-190 `_data_columns_as_dict`, 329-337 `__init__`) -/

/-- keys in order of first appearance -/
def dedupKeys : List String → List String
  | [] => []
  | k :: ks => k :: (dedupKeys ks).filter (· != k)

/-- `dict_concat(records)` (lines 46-83): one column per key of any record, `None` where a record lacks
the key.  The three branches of the code (one record; equal key sets → sorted keys; otherwise a `set`
union) differ only in the order of the columns, which is not modelled. -/
def dictConcat (rs : List (List (String × Cell))) : Table :=
  (dedupKeys (rs.flatMap fun r => r.map (·.1))).map fun k =>
    (k, rs.map fun r => ((r.reverse.find? (·.1 == k)).map (·.2)).getD .none)

/-- the `data` argument of the constructor -/
inductive Data where
  | none
  | cols (kvs : List (String × ColVal))            -- a dict of columns
  | recs (rs : List (List (String × Cell)))         -- a list of records
  | rows (rs : List (List Cell))                    -- a list of rows (lists)
  deriving Repr, Inhabited

/-- header cells of `dictable([[header...], row, ...])`: strings, ints become `str(key)` (line 336) -/
def headerKey : Cell → Option String
  | .str s => some s
  | .int n => some (toString n)
  | _ => Option.none

/-- `_rows_as_dict` (fix C01-H2 of round h1): a header of ONE name over rows of several cells is a `ValueError`.  Before the fix the outer
`zipper` repeated the single NAME for every transposed column and `dict` kept the last pair: `dictable([[1,2,3],[7,8,9]], columns=['a'])` was
`{'a': [3, 9]}` (two cells of every row dropped silently) while the same rows under two names are a ValueError. -/
def headerMisfit {α} (cs : List String) (tr : List (List α)) : Bool := cs.length == 1 && decide (tr.length > 1)

/-- `_data_columns_as_dict(data, columns)` followed by `_value` on every column (line 331).
`none` = a combination outside the modelled universe (a header row holding something else than strings / ints). -/
def dataCols (data : Data) (columns : Option (List String)) : Option (Except Err Table) :=
  match data, columns with
  | .none, _ => some (.ok [])
  | .cols kvs, _ => some (.ok (Table.ofPairs (kvs.map fun kv => (kv.1, kv.2.value))))
  | .recs [], _ => some (.ok [])
  | .recs rs, _ => some (.ok (dictConcat rs))      -- with `columns=` too (repaired code): `construct` restricts to them
  | .rows [], _ => some (.ok [])
  | .rows rs, some cs =>
      -- dict(zipper(columns, zipper(*data)))
      some (match zipper Cell.none rs with
        | .error e => .error e
        | .ok tr => if headerMisfit cs tr then .error .value else match zipper2 cs tr with
          | .error e => .error e
          | .ok kvs => .ok (Table.ofPairs kvs))
  | .rows (hd :: rs), Option.none =>
      -- dict(zipper(data[0], zipper(*data[1:]))); a header without any row: the columns, empty (repaired code)
      match hd.mapM headerKey with
      | Option.none => Option.none
      | some hs => if rs.isEmpty then some (.ok (Table.ofPairs (hs.map fun h => (h, [])))) else
        some (match zipper Cell.none rs with
        | .error e => .error e
        | .ok tr => if headerMisfit hs tr then .error .value else match zipper2 hs tr with
          | .error e => .error e
          | .ok kvs => .ok (Table.ofPairs kvs))

/-- `dictable(data, columns, **kwargs)`; `columns` is `None` or a non-empty list of strings -/
def construct (data : Data) (columns : Option (List String)) (kwargs : List (String × ColVal)) :
    Option (Except Err Table) :=
  match dataCols data columns with
  | Option.none => Option.none
  | some (.error e) => some (.error e)
  | some (.ok dk) =>
    let kw := (Table.ofPairs (kwargs.map fun kv => (kv.1, kv.2.value))).updateWith dk
    let kw := match columns with
      | Option.none => kw
      | some cs =>
        -- line 334: restrict to `columns`, absent ones are `[None]`; no data at all → empty columns
        if kw.length > 0 then Table.ofPairs (cs.map fun k => (k, (kw.col? k).getD [Cell.none]))
        else Table.ofPairs (cs.map fun k => (k, []))
    some kw.finish

/-! ### assignment and deletion (lines 362-375; _dictattr.py:155-175) -/

namespace Table

/-- `d[key] = value` -/
def setitem (t : Table) (k : String) (v : ColVal) : Except Err Table :=
  match t.len with
  | .error e => .error e
  | .ok n =>
    let value := v.value
    if value.length == n || t.isEmpty then .ok (t.set k value)
    else if value.length == 1 then .ok (t.set k (bcast n value))
    else .error .value

/-- `del d[key]` -/
def delitem (t : Table) (k : String) : Except Err Table :=
  if t.has k then .ok (t.erase k) else .error .key

/-- `d.update(other)`: one `__setitem__` per item; an error leaves the earlier assignments in place -/
def update (t : Table) : List (String × ColVal) → Table × Option Err
  | [] => (t, Option.none)
  | (k, v) :: rest =>
    match t.setitem k v with
    | .error e => (t, some e)
    | .ok t' => update t' rest

/-- `update` as used on a private copy (`Dict.__call__`): the error alone matters -/
def updateE (t : Table) (kvs : List (String × ColVal)) : Except Err Table :=
  match t.update kvs with
  | (t', Option.none) => .ok t'
  | (_, some e) => .error e

/-! ### `__getitem__` (lines 377-406) and `__iter__` -/

/-- `d[i]`: `{key: value[i]}` -/
def getRow (t : Table) (i : Int) : Except Err (List (String × Cell)) :=
  mapE (fun (c : String × List Cell) => match pyIdx c.2.length i with
    | some j => Except.ok (c.1, c.2.getD j Cell.none)
    | Option.none => Except.error Err.index) t

/-- `d[key]` for a string -/
def getColE (t : Table) (k : String) : Except Err (List Cell) :=
  match t.col? k with
  | some c => .ok c
  | Option.none => .error .key

/-- `list(d)`: `zip(*self.values())` with the keys -/
def iter (t : Table) : List (List (String × Cell)) := t.rows.map fun r => t.cols.zip r

/-- `d[k1, k2, ...]`: `list(zip(*[self[k] for k in item]))` -/
def getTuple (t : Table) (ks : List String) : Except Err (List (List Cell)) :=
  match mapE t.getColE ks with
  | .error e => .error e
  | .ok cs => .ok ((List.range ((cs.map (·.length)).foldl min (cs.headD []).length)).map fun i =>
      cs.map fun c => c.getD i .none)

/-- `d[a:b:s]`: every column is sliced (line 381); `ValueError` for a zero step (if there is a column) -/
def getSlice (t : Table) (a b : Option Int) (s : Option Int) : Except Err Table :=
  if s == some 0 && !t.isEmpty then .error .value
  else .ok (t.map fun c => (c.1, pySlice c.2 a b (s.getD 1)))

/-- row indices kept by a boolean mask: `[row for row, tf in zipper(list(self), mask) if tf]`
(a length-1 mask is repeated; so is the single row of a 1-row table) -/
def maskIdx (n : Nat) (m : List Bool) : Except Err (List Nat) :=
  match zipper2 (List.range n) m with
  | .error e => .error e
  | .ok ps => .ok ((ps.filter (·.2)).map (·.1))

/-- `d[mask]` (lines 389-391), with the empty-result fix-up -/
def getMask (t : Table) (m : List Bool) : Except Err Table :=
  match maskIdx t.nrows m with
  | .error e => .error e
  | .ok idx => if idx.isEmpty then .ok t.emptyLike else .ok (t.gatherRows idx)

/-- `d[mask]` as `__getitem__` accepts it (repaired code): one flag per row, or a single flag; any other length
is a `ValueError` - in particular for a ONE-row table, whose row `zipper` would repeat once per flag
(`getMask` alone, see `Pyg.Props.C01.mask_one_row_repeats`) -/
def getMaskC (t : Table) (m : List Bool) : Except Err Table :=
  if m.length = t.nrows ∨ m.length = 1 then t.getMask m else .error .value

/-- `d[[i, j, ...]]` (lines 392-394), non-empty int list; `d[[]]` is `emptyLike` (line 386) -/
def getTake (t : Table) (is : List Int) : Except Err Table :=
  if is.isEmpty then .ok t.emptyLike else
  match mapE (fun i => match pyIdx t.nrows i with | some j => Except.ok j | Option.none => Except.error Err.index) is with
  | .error e => .error e
  | .ok idx => .ok (t.gatherRows idx)

/-- `d[['a', 'b']]` (line 388; _dictattr.py:180-181) -/
def getProj (t : Table) (ks : List String) : Except Err Table :=
  if ks.isEmpty then .ok t.emptyLike else
  match mapE (fun k => match t.getColE k with | .ok c => .ok (k, c) | .error e => .error e) ks with
  | .error e => .error e
  | .ok kvs => .ok (ofPairs kvs)

end Table

/-! ### derived columns: `d(**kwargs)` (src/pyg_base/_dict.py:79-94) -/

/-- the menu of callables the correspondence uses (implemented on both sides) -/
inductive Fn where
  | idcol (a : String)             -- lambda a: a
  | isnone (a : String)            -- lambda a: a is None
  | coalesce (a b : String)        -- lambda a, b: b if a is None else a
  | const (c : Cell)               -- lambda: c
  deriving Repr, Inhabited

/-- `getargs(f)` -/
def Fn.args : Fn → List String
  | .idcol a => [a]
  | .isnone a => [a]
  | .coalesce a b => [a, b]
  | .const _ => []

/-- `kwargs_support(f)(**row)`: `TypeError` when a parameter is not among the keywords offered (`row`: the
columns; inside `d(**kw)` also `key`, see `keyDflt`) -/
def Fn.eval (f : Fn) (row : String → Option Cell) : Except Err Cell :=
  match f with
  | .idcol a => match row a with | some x => .ok x | Option.none => .error .type
  | .isnone a => match row a with | some x => .ok (.bool (x == .none)) | Option.none => .error .type
  | .coalesce a b => match row a, row b with
      | some x, some y => .ok (if x == .none then y else x)
      | _, _ => .error .type
  | .const c => .ok c

/-- the parameters a callable sees inside `d(**kw)`: the row's cells, and `key` (the name of the column being
defined) where the row has no cell of that name -/
def keyDflt (key : String) (row : String → Option Cell) : String → Option Cell :=
  fun a => match row a with
    | some x => some x
    | Option.none => if a == "key" then some (.str key) else Option.none

namespace Table

/-- `d.apply(f)`: one value per row (line 670-672) -/
def applyFn (t : Table) (f : Fn) : Except Err (List Cell) :=
  mapE (fun i => f.eval (t.cellAt i)) (List.range t.nrows)

/-- `res.apply(f, key = key)`: inside `d(**kw)` every callable is also offered the keyword `key = <name of the
new column>` (`default_params`, overridden by the row's own cells: `_dict_in_place_update(default_params, row)`) -/
def applyFnK (t : Table) (key : String) (f : Fn) : Except Err (List Cell) :=
  mapE (fun i => f.eval (keyDflt key (t.cellAt i))) (List.range t.nrows)

/-- `res[key] = res.apply(f, key = key)` (`Dict.__call__`, _dict.py:88-92) -/
def setFn (t : Table) (kf : String × Fn) : Except Err Table :=
  match t.applyFnK kf.1 kf.2 with
  | .error e => .error e
  | .ok vs => t.setitem kf.1 (.many vs)

def setFns (t : Table) : List (String × Fn) → Except Err Table
  | [] => .ok t
  | kf :: rest => match t.setFn kf with
    | .error e => .error e
    | .ok t' => setFns t' rest

/-- the `while len(callables) > 1` loop: evaluate the callables that do not depend on another pending
one; `ValueError` if there is none; the last one is evaluated unconditionally -/
def callLoop (fuel : Nat) (res : Table) (fns : List (String × Fn)) : Except Err Table :=
  match fuel with
  | 0 => res.setFns fns
  | fuel + 1 =>
    if fns.length > 1 then
      let keys := fns.map (·.1)
      let indep := fns.filter fun kf => kf.2.args.all fun a => !keys.contains a
      if indep.isEmpty then .error .value
      else match res.setFns indep with
        | .error e => .error e
        | .ok res' => callLoop fuel res' (fns.filter fun kf => !(indep.any (·.1 == kf.1)))
    else res.setFns fns

/-- `d(**kwargs)`: constants first (`res.update`), then the callables -/
def call (t : Table) (consts : List (String × ColVal)) (fns : List (String × Fn)) : Except Err Table :=
  match t.updateE consts with
  | .error e => .error e
  | .ok res => callLoop fns.length res fns

end Table

/-! ### per-column transforms: `d.do(f, *keys)` (lines 675-718) -/

inductive DoFn where
  | isnone                         -- lambda value: value is None
  | dflt (c : Cell)                -- lambda value: c if value is None else value
  | coalesceWith (b : String)      -- lambda value, b: b if value is None else value
  deriving Repr, Inhabited

def DoFn.eval (f : DoFn) (v : Cell) (row : String → Option Cell) : Except Err Cell :=
  match f with
  | .isnone => .ok (.bool (v == .none))
  | .dflt c => .ok (if v == .none then c else v)
  | .coalesceWith b => match row b with
      | some y => .ok (if v == .none then y else v)
      | Option.none => .error .type

namespace Table

/-- `res[key] = [f(row[key], **others) for row in res]` -/
def doKey (t : Table) (f : DoFn) (key : String) : Except Err Table :=
  match mapE (fun i =>
      match t.cellAt i key with
      | Option.none => Except.error Err.key
      | some v => f.eval v (t.cellAt i)) (List.range t.nrows) with
  | .error e => .error e
  | .ok vs => t.setitem key (.many vs)

def doKeys (t : Table) (f : DoFn) : List String → Except Err Table
  | [] => .ok t
  | k :: ks => match t.doKey f k with
    | .error e => .error e
    | .ok t' => doKeys t' f ks

/-- `d.do(f)` (all columns) / `d.do(f, keys)` -/
def doCols (t : Table) (f : DoFn) (keys : Option (List String)) : Except Err Table :=
  t.doKeys f (keys.getD t.cols)

end Table

/-! ### renaming (src/pyg_base/_dictattr.py:238-331) -/

/-- `d.relabel(affix?, **kw)`: a string starting with `_` is a suffix, one ending with `_` a prefix, any
other string changes nothing; the keyword mapping is applied on top -/
structure Relabel where
  affix : Option String
  kw : List (String × String)
  deriving Repr, Inhabited

def Relabel.key (r : Relabel) (k : String) : String :=
  match r.kw.reverse.find? (·.1 == k) with
  | some p => p.2
  | Option.none =>
    match r.affix with
    | some a => if a.startsWith "_" then k ++ a else if a.endsWith "_" then a ++ k else k
    | Option.none => k

namespace Table

/-- `type(self)(**{keys.get(k, k): v for k, v in self.items()})` -/
def relabel (t : Table) (r : Relabel) : Table := ofPairs (t.map fun c => (r.key c.1, c.2))

/-! ### concatenation (lines 720-753, 868-871) -/

/-- `dictable.concat(t1, t2, ...)` for two or more tables: every column of any table, the tables' columns
appended in order, `[None] * len(t)` for a table without the column (`dictable.get`, line 352-356) -/
def concat (ts : List Table) : Table :=
  (dedupKeys (ts.flatMap Table.cols)).map fun k => (k, ts.flatMap fun t => t.getCol k)

end Table

/-! ### the history machine (DESIGN 3.2) -/

abbrev Heap := List Table

/-- bind the destination handle: rebind an existing one or allocate the next -/
def Heap.put (s : Heap) (dst : Nat) (t : Table) : Heap :=
  if dst < s.length then s.set dst t else s ++ [t]

inductive Op where
  | new (dst : Nat) (data : Data) (columns : Option (List String)) (kwargs : List (String × ColVal))
  | setitem (h : Nat) (k : String) (v : ColVal)
  | delitem (h : Nat) (k : String)
  | update (h : Nat) (kvs : List (String × ColVal))
  | len (h : Nat)
  | shape (h : Nat)
  | row (h : Nat) (i : Int)
  | col (h : Nat) (k : String)
  | iter (h : Nat)
  | tup (h : Nat) (ks : List String)
  | apply (h : Nat) (f : Fn)                       -- d[callable]: one value per row (line 403-404)
  | slice (dst h : Nat) (a b s : Option Int)
  | mask (dst h : Nat) (m : List Bool)
  | take (dst h : Nat) (is : List Int)
  | proj (dst h : Nat) (ks : List String)
  | call (dst h : Nat) (consts : List (String × ColVal)) (fns : List (String × Fn))
  | relabel (dst h : Nat) (r : Relabel)
  | doo (dst h : Nat) (f : DoFn) (keys : Option (List String))
  | concat (dst : Nat) (hs : List Nat)
  | addrec (dst h : Nat) (r : List (String × Cell))
  | addnone (h : Nat)
  | copy (dst h : Nat)
  deriving Repr, Inhabited

inductive Out where
  | unit
  | val (v : Val)
  | alias (h : Nat)
  | err (e : Err)
  | badHandle
  deriving Repr, Inhabited

def cellsVal (xs : List Cell) : Val := .list (xs.map .cell)
def recVal (r : List (String × Cell)) : Val := .dict (r.map fun kv => (kv.1, .cell kv.2))
def natVal (n : Nat) : Val := .cell (.int n)

/-- a table-producing operation: bind `dst` on success, leave the heap alone on an error -/
def Heap.bind (s : Heap) (dst : Nat) (r : Except Err Table) : Heap × Out :=
  match r with
  | .ok t => (s.put dst t, .unit)
  | .error e => (s, .err e)

/-- a query: the heap is unchanged -/
def Heap.query (s : Heap) (r : Except Err Val) : Heap × Out :=
  match r with
  | .ok v => (s, .val v)
  | .error e => (s, .err e)

def step (s : Heap) (op : Op) : Heap × Out :=
  let withT (h : Nat) (f : Table → Heap × Out) : Heap × Out :=
    match s[h]? with
    | some t => f t
    | Option.none => (s, .badHandle)
  match op with
  | .new dst data columns kwargs =>
      match construct data columns kwargs with
      | some r => s.bind dst r
      | Option.none => (s, .badHandle)
  | .setitem h k v => withT h fun t =>
      match t.setitem k v with
      | .ok t' => (s.set h t', .unit)
      | .error e => (s, .err e)
  | .delitem h k => withT h fun t =>
      match t.delitem k with
      | .ok t' => (s.set h t', .unit)
      | .error e => (s, .err e)
  | .update h kvs => withT h fun t =>
      match t.update kvs with
      | (t', Option.none) => (s.set h t', .unit)
      | (t', some e) => (s.set h t', .err e)
  | .len h => withT h fun t => s.query (t.len.map natVal)
  | .shape h => withT h fun t => s.query (t.len.map fun n => .tuple [natVal n, natVal t.length])
  | .row h i => withT h fun t => s.query ((t.getRow i).map recVal)
  | .col h k => withT h fun t => s.query ((t.getColE k).map cellsVal)
  | .iter h => withT h fun t => s.query (.ok (.list (t.iter.map recVal)))
  | .tup h ks => withT h fun t => s.query ((t.getTuple ks).map fun rs => .list (rs.map fun r => .tuple (r.map .cell)))
  | .apply h f => withT h fun t => s.query ((t.applyFn f).map cellsVal)
  | .slice dst h a b st => withT h fun t => s.bind dst (t.getSlice a b st)
  | .mask dst h m => withT h fun t => s.bind dst (t.getMaskC m)
  | .take dst h is => withT h fun t => s.bind dst (t.getTake is)
  | .proj dst h ks => withT h fun t => s.bind dst (t.getProj ks)
  | .call dst h consts fns => withT h fun t => s.bind dst (t.call consts fns)
  | .relabel dst h r => withT h fun t => s.bind dst (.ok (t.relabel r))
  | .doo dst h f keys => withT h fun t => s.bind dst (t.doCols f keys)
  | .concat dst hs =>
      match hs.mapM fun h => s[h]? with
      | Option.none => (s, .badHandle)
      | some [] => s.bind dst (.ok [])                      -- dictable.concat([]) = dictable()
      | some [_] => (s, .alias (hs.headD 0))                -- a single table is returned itself
      | some ts => s.bind dst (.ok (Table.concat ts))
  | .addrec dst h r => withT h fun t =>
      -- d + record: concat(d, dictable(record))
      match construct (.cols (r.map fun kv => (kv.1, .one kv.2))) Option.none [] with
      | some (.ok t2) => s.bind dst (.ok (Table.concat [t, t2]))
      | some (.error e) => (s, .err e)
      | Option.none => (s, .badHandle)
  | .addnone h => withT h fun _ => (s, .alias h)             -- d + None, d + 0: `return self`
  | .copy dst h => withT h fun t => s.bind dst (.ok t)

/-- run a history from the empty heap -/
def run (s : Heap) : List Op → Heap
  | [] => s
  | op :: ops => run (step s op).1 ops

/-! ### the plain list-of-records reference (DESIGN §4 `Recs`, `abs`) -/

structure Recs where
  cols : List String
  rows : List (List Cell)
  deriving Repr, DecidableEq

/-- a dictable read as records -/
def Table.abs (t : Table) : Recs := ⟨t.cols, t.rows⟩

namespace Recs

/-- keep the flagged records -/
def mask (r : Recs) (m : List Bool) : Recs := ⟨r.cols, ((r.rows.zip m).filter (·.2)).map (·.1)⟩

/-- `[records[i] for i in is]` with python indices; IndexError if one is out of range -/
def take (r : Recs) (is : List Int) : Except Err Recs :=
  if is.all fun i => (pyIdx r.rows.length i).isSome then
    .ok ⟨r.cols, is.filterMap fun i => (pyIdx r.rows.length i).map fun j => r.rows.getD j []⟩
  else .error .index

/-- `records[a:b:s]` -/
def slice (r : Recs) (a b : Option Int) (s : Int) : Recs :=
  ⟨r.cols, (sliceIdx r.rows.length a b s).map fun j => r.rows.getD j []⟩

/-- rename the keys of every record -/
def rename (r : Recs) (f : String → String) : Recs := ⟨r.cols.map f, r.rows⟩

end Recs

/-- the value of a record (cells aligned with `cols`) under key `k`, `None` if the key is absent -/
def Recs.lookup (cols : List String) (row : List Cell) (k : String) : Cell :=
  (((cols.zip row).find? (·.1 == k)).map (·.2)).getD .none

/-- list-of-records concatenation: all keys, the records of each operand in order, absent keys `None` -/
def Recs.concat (rs : List Recs) : Recs :=
  let keys := dedupKeys (rs.flatMap Recs.cols)
  ⟨keys, rs.flatMap fun r => r.rows.map fun row => keys.map fun k => Recs.lookup r.cols row k⟩

end Pyg
