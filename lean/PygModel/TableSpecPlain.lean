/-
  PygModel.TableSpecPlain — readings of dictable operations on `Recs` that are written WITHOUT the code's
  own helpers (`zipper`, `lens`, `bcast`), so that a theorem relating the model to them says something the
  shared helper cannot hide (review of C01: `Recs.getMask` goes through `zipper2` and therefore shares the
  broadcasting quirk of `_zip.py` with the model).
-/
import PygModel.TableSpec

namespace Pyg
namespace Recs

/-- the PLAIN reading of `d[mask]` on a list of records, with nothing but `zip`, `filter`, `map`:
  * one flag per record: keep the flagged records, in order (`Recs.mask`);
  * a single flag (and not exactly one record): all records if it is `True`, none otherwise;
  * any other length: `ValueError`.
In particular a ONE-record table under a mask of another length is a `ValueError` here; the code (and the
model, `Pyg.Props.C01.mask_one_row_repeats`) repeats the record instead. -/
def getMaskPlain (r : Recs) (m : List Bool) : Except Err Recs :=
  if m.length = r.rows.length then .ok ⟨r.cols, ((r.rows.zip m).filter (·.2)).map (·.1)⟩
  else match m with
    | [flag] => .ok ⟨r.cols, if flag then r.rows else []⟩
    | _ => .error .value

end Recs
end Pyg
