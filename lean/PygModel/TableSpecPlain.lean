/-
  PygModel.TableSpecPlain — readings of dictable operations on `Recs` that are written WITHOUT the code's
  own helpers (`zipper`, `lens`, `bcast`), so that a theorem relating the model to them says something the
  shared helper cannot hide (review of C01: `Recs.getMask` goes through `zipper2` and therefore shares the
  broadcasting quirk of `_zip.py` with the model).
-/
import PygModel.TableSpec

/-! `Recs.getMaskPlain` now lives in PygModel/TableSpec.lean: since the repair of `dictable.__getitem__` (a mask
must have one flag per row or be a single flag) the reference machine `specStep` itself uses the plain reading. -/
