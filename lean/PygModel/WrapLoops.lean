/-
  PygModel.WrapLoops — MODEL EXTENSION of PygModel.Wrap (round k6): one call through a stack of decorators whose `loops` layers DO
  loop.  `evalChain` (Wrap.lean) forwards one call through a `loops` layer whatever its first argument is, which is what the code
  does only when that argument is not a list / tuple / dict of one of the wrapper's `types` (`inDomain`).  Here the `loops` arm is
  `loops.wrapped` / `loops._wrapped` (src/pyg_base/_loop.py:214-262) for the container kinds of the model universe:

      def _wrapped(self, arg, args, kwargs):
          axis = kwargs.pop('axis', 0)
          if isinstance(arg, dict) and type(arg) in self.types:          # one call per key, companions by key
              keys = _sorted(arg.keys())
              res = {key : self._wrapped(arg[key], tuple(_item_by_key(a,key,keys) for a in args), {k : _item_by_key(v,key,keys) ...})}
          ...
          elif isinstance(arg, self.types) and not isinstance(arg, dict): # one call per element, companions by position
              res = [self._wrapped(arg[i], tuple(_item_by_i(a,i,n) for a in args), {k: _item_by_i(v,i,n) ...}) for i in range(n)]
          else:
              return self.function(arg, *args, **kwargs)

  `liftT types leaf` is `PygModel.Lift.wrapped` with the type test of the wrapper (`types` = the names in its `types` parameter);
  the leaf call `self.function(arg, *args, **kwargs)` is a call of the NEXT layer of the stack.  Companion selection is C19's
  `itemByI` / `itemByKey`.  Property C18 speaks of "loops on non-container input" only: `Props.C18.evalChainL_in_domain` proves
  that there this model IS `evalChain`; outside, what it computes is C19's subject (sampled by the `stackx` lines).
-/
import PygModel.Wrap
import PygModel.Lift

namespace Pyg

mutual
  def liftT (types : List String) (leaf : Val → List Val → KW → Res Val) : Val → List Val → KW → Res Val
    | .dict kvs, args, kw =>
        if types.contains "dict" then
          match liftTKVs types leaf (sortStr (keysOf kvs)) kvs args (dropAxis kw) with
          | .error e => .error e
          | .ok r => .ok (.dict r)
        else leaf (.dict kvs) args (dropAxis kw)
    | .list xs, args, kw =>
        if types.contains "list" then
          match liftTSeq types leaf xs.length 0 xs args (dropAxis kw) with
          | .error e => .error e
          | .ok r => .ok (.list r)
        else leaf (.list xs) args (dropAxis kw)
    | .tuple xs, args, kw =>
        if types.contains "tuple" then
          match liftTSeq types leaf xs.length 0 xs args (dropAxis kw) with
          | .error e => .error e
          | .ok r => .ok (.tuple r)
        else leaf (.tuple xs) args (dropAxis kw)
    | .cell c, args, kw => leaf (.cell c) args (dropAxis kw)
  def liftTSeq (types : List String) (leaf : Val → List Val → KW → Res Val) (n : Nat) :
      Nat → List Val → List Val → KW → Res (List Val)
    | _, [], _, _ => .ok []
    | i, x :: xs, args, kw =>
        match liftT types leaf x (args.map (itemByI i n)) (mapKW (itemByI i n) kw) with
        | .error e => .error e
        | .ok y =>
          match liftTSeq types leaf n (i + 1) xs args kw with
          | .error e => .error e
          | .ok ys => .ok (y :: ys)
  def liftTKVs (types : List String) (leaf : Val → List Val → KW → Res Val) (keys : List String) :
      KW → List Val → KW → Res KW
    | [], _, _ => .ok []
    | (k, v) :: kvs, args, kw =>
        match liftT types leaf v (args.map (itemByKey k keys)) (mapKW (itemByKey k keys) kw) with
        | .error e => .error e
        | .ok y =>
          match liftTKVs types leaf keys kvs args kw with
          | .error e => .error e
          | .ok ys => .ok ((k, y) :: ys)
end

/-- one call of a decorated function, `loops` layers looping over a first argument of one of their types -/
def evalChainL (s : Sig) (body : PDict → Res Val) : List (Cls × PDict) → Call → Res Val
  | [], c => applyFn s body c
  | (.tryValue, p) :: rest, c =>
      match evalChainL s body rest c with
      | .ok v => .ok v
      | .error e =>
        if returnsValue p = false then .error e
        else .ok ((p.lookup "value").getD (.cell .none))
  | (.tryBack, _) :: rest, c =>
      match evalChainL s body rest c with
      | .ok v => .ok v
      | .error _ => .ok (firstArg s c)
  | (.kwargsSupport, _) :: rest, c => evalChainL s body rest (kwFilter s c)
  | (.cache, _) :: rest, c => evalChainL s body rest c
  | (.loops, p) :: rest, c =>
      -- loops.wrapped (_loop.py:214-228): the looped argument is the first positional one, else the keyword named like the first
      -- parameter; with neither the call is forwarded untouched
      match c.args, s.params with
      | a :: as, _ =>
          liftT (typesOf p) (fun leaf args kw => evalChainL s body rest { args := leaf :: args, kw := kw }) a as c.kw
      | [], top :: _ =>
          match c.kw.lookup top with
          | some arg =>
              liftT (typesOf p) (fun leaf args kw => evalChainL s body rest { args := leaf :: args, kw := kw }) arg []
                (c.kw.erase top)
          | Option.none => evalChainL s body rest c
      | [], [] => evalChainL s body rest c
  | (.pd2np, p) :: rest, c => evalChainL s body rest (pd2npCall (excOf p) c)

end Pyg
