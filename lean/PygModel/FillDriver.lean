/- line-protocol handler for the Fill model (C12).
   series  : `(L (T T:<t> <cell>)*)`            cell = `I:<scaled int>` | `F:nan`
   frame   : `(T (L T:<t>*) (D (<hexname> (L <cell>*))*))`
   array   : 1-d `(L <cell>*)`, 2-d `(L (L <cell>*)*)` = list of COLUMNS
   methods : `(M m*)` list, `(MT m*)` tuple, `(M1 m)` bare;  m = ffill|bfill|backfill|ffill_na|ffill_0|fnna|nona|c:<int>
   limit   : `N` | `I:<k>`
   index kinds (review v4 2.1): the ops `…-si`, `…-sf`, `…-dfi`, `…-dff` are the Series / DataFrame ops over an INTEGER / FLOAT
   labelled index; the labels travel as `T:<k>` (float labels scaled by 4) - to the model a label is an `Int` whatever it spells,
   so these ops are answered exactly as `…-s` / `…-df` (`baseOp`). -/
import PygModel.Fill

namespace Pyg.FillDriver
open Pyg Pyg.Fill

def cellOpt : Val → Option (Option Int)
  | .cell (.int v) => some (some v)
  | .cell .nan => some Option.none
  | .cell .none => some Option.none
  | _ => Option.none

def colOfVal : Val → Option Col
  | .list xs => xs.mapM cellOpt
  | _ => Option.none

def colToVal (c : Col) : Val :=
  .list (c.map fun v => match v with | some x => .cell (.int x) | Option.none => .cell .nan)

def timesOfVal : Val → Option (List Int)
  | .list xs => xs.mapM fun x => match x with | .cell (.dt t) => some t | _ => Option.none
  | _ => Option.none

def frameOfVal : Val → Option Frame
  | .tuple [ix, .dict kvs] => do
      let idx ← timesOfVal ix
      let cols ← kvs.mapM fun (k, v) => (colOfVal v).map fun c => (k, c)
      pure { idx := idx, cols := cols }
  | _ => Option.none

def frameToVal (f : Frame) : Val :=
  .tuple [.list (f.idx.map fun t => .cell (.dt t)), .dict (f.cols.map fun c => (c.1, colToVal c.2))]

def colsOfVal : Val → Option (List Col)
  | .list xs => xs.mapM colOfVal
  | _ => Option.none

def methodOf (s : String) : Option Method :=
  if s = "ffill" then some .ffill
  else if s = "bfill" || s = "backfill" then some .bfill
  else if s = "ffill_na" then some .ffillNa
  else if s = "ffill_0" then some .ffill0
  else if s = "fnna" then some .fnna
  else if s = "nona" then some .nona
  else if s.startsWith "c:" then (s.drop 2).toString.toInt?.map .const
  else Option.none

def methodsOf : Sexp → Option (List Method)
  | .node (.atom h :: ms) =>
    if h = "M" || h = "MT" || h = "M1" then
      ms.mapM fun m => match m with | .atom s => methodOf s | _ => Option.none
    else Option.none
  | .atom "N" => some []
  | _ => Option.none

def limitOf : Sexp → Option (Option Nat)
  | .atom "N" => some Option.none
  | .atom s => if s.startsWith "I:" then (s.drop 2).toString.toNat?.map some else Option.none
  | _ => Option.none

def edgeOf : Sexp → Option (Option Int)
  | .atom "N" => some Option.none
  | .atom s => if s.startsWith "I:" then (s.drop 2).toString.toInt?.map some else Option.none
  | _ => Option.none

def reply {α} (r : Res α) (f : α → Val) : String :=
  match r with
  | .ok v => "ok " ++ (f v).render
  | .error e => "err " ++ e.render

abbrev St := Unit
def init : St := ()
def modelName : String := "fill"

/-- the pandas ops over integer (`i`) / float (`f`) labels are the ops over abstract `Int` labels -/
def baseOp (op : String) : String :=
  if op = "fillna-si" || op = "fillna-sf" then "fillna-s"
  else if op = "fillna-dfi" || op = "fillna-dff" then "fillna-df"
  else if op = "nona-si" || op = "nona-sf" then "nona-s"
  else if op = "nona-dfi" || op = "nona-dff" then "nona-df"
  else op

def handle1 (op0 : String) (args : List Sexp) : Option String := do
  let op := baseOp op0
  match op, args with
  | "fillna-s", [x, ms, lim] =>
      let ts ← TS.ofVal (← Val.ofSexp x); let ms ← methodsOf ms; let lim ← limitOf lim
      pure (reply (fillna ms lim (ofTS ts)) fun f => TS.toVal (toTS f))
  | "fillna-df", [x, ms, lim] =>
      let f ← frameOfVal (← Val.ofSexp x); let ms ← methodsOf ms; let lim ← limitOf lim
      pure (reply (fillna ms lim f) frameToVal)
  | "fillna-a1", [x, ms, lim] =>
      let c ← colOfVal (← Val.ofSexp x); let ms ← methodsOf ms; let lim ← limitOf lim
      pure (reply (fillnaArr ms lim [c]) fun cs => colToVal (cs.headD []))
  | "fillna-a2", [x, ms, lim] =>
      let cs ← colsOfVal (← Val.ofSexp x); let ms ← methodsOf ms; let lim ← limitOf lim
      pure (reply (fillnaArr ms lim cs) fun cs => .list (cs.map colToVal))
  -- 2-d inputs WITHOUT columns: a DataFrame over the labels / an (n, 0) array; the reply is the surviving labels / the row count
  | "fillna-df0", [x, ms, lim] =>
      let ts ← TS.ofVal (← Val.ofSexp x); let ms ← methodsOf ms; let lim ← limitOf lim
      pure (reply (fillna ms lim { idx := ts.index, cols := [] }) fun f => TS.toVal (f.idx.map fun t => (t, Option.none)))
  | "fillna-a0", [n, ms, lim] =>
      let n ← limitOf n; let ms ← methodsOf ms; let lim ← limitOf lim
      pure (reply (fillna ms lim { idx := (List.range (n.getD 0)).map Int.ofNat, cols := [] }) fun f => .cell (.int f.idx.length))
  | "nona-df0", [x, e] =>
      let ts ← TS.ofVal (← Val.ofSexp x); let e ← edgeOf e
      pure (reply (nona e { idx := ts.index, cols := [] }) fun f => TS.toVal (f.idx.map fun t => (t, Option.none)))
  | "nona-s", [x, e] =>
      let ts ← TS.ofVal (← Val.ofSexp x); let e ← edgeOf e
      pure (reply (nona e (ofTS ts)) fun f => TS.toVal (toTS f))
  | "nona-df", [x, e] =>
      let f ← frameOfVal (← Val.ofSexp x); let e ← edgeOf e
      pure (reply (nona e f) frameToVal)
  | "nona-a1", [x, e] =>
      let c ← colOfVal (← Val.ofSexp x); let e ← edgeOf e
      pure (reply (nonaArrE e [c]) fun cs => colToVal (cs.headD []))
  | "nona-a2", [x, e] =>
      let cs ← colsOfVal (← Val.ofSexp x); let e ← edgeOf e
      pure (reply (nonaArrE e cs) fun cs => .list (cs.map colToVal))
  | _, _ => Option.none

def handle (s : St) (op : String) (args : List Sexp) : Option (St × String) :=
  (handle1 op args).map fun r => (s, r)

end Pyg.FillDriver
