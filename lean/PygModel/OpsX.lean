/-
  PygModel.OpsX — the other operators that C08 names, on Series and scalars: the comparisons `gt_ ge_ lt_ le_`,
  `min_ / max_`, and `pow_` for exponents that are non-negative integers (extends PygModel.Ops).
  Anchors: src/pyg_base/_pandas.py:1094-1129 `_pow_ _gt_ _ge_ _lt_ _le_` (presync kernels, `default = nan`),
  1320-1348 the public wrappers, 1350-1410 `_align_columns _minimum _maximum min_ max_` (`df_sync` of ALL operands, then
  `reducer(np.minimum | np.maximum)`).

  pandas / numpy are *defined* here, i.e. assumed (sampled by the correspondence check): a comparison with NaN on either
  side is False (the result is a bool Series, never NaN); `np.minimum / np.maximum` propagate NaN; `x ** 0 = 1` and
  `1 ** y = 1` even when the other side is NaN, otherwise NaN propagates.  DataFrame operands of these operators,
  exponents that are negative or fractional (`0 ** -1 = inf`, roots) and `df_std` are NOT modelled.
-/
import PygModel.Ops

namespace Pyg.Ops
open Pyg Pyg.Align

/-! ### a presync kernel with an arbitrary pointwise function -/

def kernelG (f : Option Rat → Option Rat → Option Rat) : Operand → Operand → Operand
  | .ts a, .ts b => .ts { idx := a.idx, vals := (a.vals.zip b.vals).map fun p => f p.1 p.2 }
  | .ts a, .num q => .ts { idx := a.idx, vals := a.vals.map fun x => f x q }
  | .num q, .ts b => .ts { idx := b.idx, vals := b.vals.map fun y => f q y }
  | .num p, .num q => .num (f p q)

def binopG (f : Option Rat → Option Rat → Option Rat) (how : How) (m : Option Dir) (a b : Operand) : Operand :=
  match alignAll how m [a, b] with
  | [a', b'] => kernelG f a' b'
  | _ => .num Option.none   -- unreachable: alignAll keeps the length

/-! ### `min_ / max_` -/

inductive MM where
  | min | max
  deriving Repr, DecidableEq, Inhabited

def MM.app : MM → Rat → Rat → Rat
  | .min, x, y => if x ≤ y then x else y
  | .max, x, y => if x ≤ y then y else x

/-- `np.minimum / np.maximum`: NaN on either side gives NaN -/
def MM.appO (k : MM) : Option Rat → Option Rat → Option Rat
  | some x, some y => some (k.app x y)
  | _, _ => Option.none

/-- `min_(a, b, join, method)`, lines 1397-1410: ALL operands are synchronised at once (`df_sync`), then reduced from
the left; no operand gives `None` -/
def mmList (k : MM) (how : How) (m : Option Dir) (as bs : List Operand) : Option Operand :=
  reducer (kernelG k.appO) (alignAll how m (as ++ bs))

/-! ### `pow_` -/

/-- the exponent as a natural number, if it is one -/
def natExp (y : Rat) : Option Nat := if y.den = 1 ∧ 0 ≤ y.num then some y.num.toNat else Option.none

/-- `x ** y` in floats for `y` NaN or a non-negative integer (for other `y` the model answers NaN and the driver
refuses the request): `x ** 0 = 1` and `1 ** y = 1` whatever the other side, else NaN propagates -/
def powO : Option Rat → Option Rat → Option Rat
  | x, some y =>
    if y = 0 then some 1
    else match x with
      | some x => if x = 1 then some 1 else (natExp y).map fun n => x ^ n
      | Option.none => Option.none
  | some x, Option.none => if x = 1 then some 1 else Option.none
  | Option.none, Option.none => Option.none

/-- is every exponent NaN or a non-negative integer? (the domain of the model of `pow_`) -/
def powDomain : Operand → Bool
  | .num Option.none => true
  | .num (some y) => (natExp y).isSome
  | .ts s => s.vals.all fun v => match v with | some y => (natExp y).isSome | Option.none => true

def powop (how : How) (m : Option Dir) (a b : Operand) : Operand := binopG powO how m a b

/-! ### comparisons: the result is a bool Series / a bool -/

inductive Cmp where
  | gt | ge | lt | le
  deriving Repr, DecidableEq, Inhabited

def Cmp.app : Cmp → Rat → Rat → Bool
  | .gt, x, y => decide (y < x)
  | .ge, x, y => decide (y ≤ x)
  | .lt, x, y => decide (x < y)
  | .le, x, y => decide (x ≤ y)

/-- a comparison with NaN is False -/
def Cmp.appO (c : Cmp) : Option Rat → Option Rat → Bool
  | some x, some y => c.app x y
  | _, _ => false

inductive BOperand where
  | ts (idx : List Int) (vals : List Bool)
  | flag (b : Bool)
  deriving Repr, DecidableEq, Inhabited

def cmpKernel (c : Cmp) : Operand → Operand → BOperand
  | .ts a, .ts b => .ts a.idx ((a.vals.zip b.vals).map fun p => c.appO p.1 p.2)
  | .ts a, .num q => .ts a.idx (a.vals.map fun x => c.appO x q)
  | .num q, .ts b => .ts b.idx (b.vals.map fun y => c.appO q y)
  | .num p, .num q => .flag (c.appO p q)

/-- `gt_(a, b, join, method)` etc. -/
def cmpop (c : Cmp) (how : How) (m : Option Dir) (a b : Operand) : BOperand :=
  match alignAll how m [a, b] with
  | [a', b'] => cmpKernel c a' b'
  | _ => .flag false   -- unreachable

end Pyg.Ops
