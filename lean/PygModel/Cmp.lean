/-
  PygModel.Cmp — model of `pyg_base._sort.cmp` / `cmparr` (src/pyg_base/_sort.py:9-78)
  and of `sort` (lines 112-137).

  cmp(x, y):   as_primitive; int -> float; compare str(type(.)); compare len0;
               dict: items sorted by key, keys then values;  nan/±inf -> +inf;
               iterable: cmparr; else native <, >.
-/
import PygModel.Basic

namespace Pyg

/-- alphabetical rank of `str(type(x))` after the int→float cast:
`NoneType < bool < datetime.datetime < dict < float < list < str < tuple` -/
def Cell.rank : Cell → Nat
  | .none => 0
  | .bool _ => 1
  | .dt _ => 2
  | .int _ | .flt _ | .nan | .pinf | .ninf => 4
  | .str _ => 6

def Val.rank : Val → Nat
  | .cell c => c.rank
  | .dict _ => 3
  | .list _ => 5
  | .tuple _ => 7

/-- numeric key of a cell within its type: `(0, q)` for the finite float `q/4` (ints are cast
to float first), `(-1, 0)` for -inf, `(1, 0)` for +inf (native float order) and `(2, 0)` for NaN,
which `cmp` ranks equal to NaN and above every other float (repaired code: the pinned tree mapped
NaN, +inf and -inf all to `np.inf`, so that `cmp(-inf, 1) == 1` while native `sorted` puts -inf
first — finding F1b of C02); bools as 0/1; datetimes as their microsecond count. -/
def Cell.num : Cell → Int × Int
  | .bool b => (0, b.toNat)
  | .dt us => (0, us)
  | .int n => (0, 4 * n)
  | .flt q => (0, q)
  | .ninf => (-1, 0)
  | .pinf => (1, 0)
  | .nan => (2, 0)
  | .none | .str _ => (0, 0)

def Cell.skey : Cell → String
  | .str s => s
  | _ => ""

/-- native `<` / `>` within one type (the last line of `cmp`) -/
def Cell.cmpSame (a b : Cell) : Ordering :=
  (compare a.num.1 b.num.1).then ((compare a.num.2 b.num.2).then (compare a.skey b.skey))

def Cell.cmp (a b : Cell) : Ordering :=
  (compare a.rank b.rank).then (Cell.cmpSame a b)

/-- `sorted(x.items())` for a dict with distinct string keys: insertion sort on the key.
(Python compares the `(key, value)` tuples; with distinct keys the values are never compared.) -/
def insertKV (kv : String × Val) : List (String × Val) → List (String × Val)
  | [] => [kv]
  | h :: t => if kv.1 ≤ h.1 then kv :: h :: t else h :: insertKV kv t

def sortKV : List (String × Val) → List (String × Val)
  | [] => []
  | h :: t => insertKV h (sortKV t)

mutual
  /-- `cmp` on values (before the dict items are sorted, see `cmp`) -/
  def cmpN : Val → Val → Ordering
    | .cell a, .cell b => Cell.cmp a b
    | .list xs, .list ys => (compare xs.length ys.length).then (cmpArr xs ys)
    | .tuple xs, .tuple ys => (compare xs.length ys.length).then (cmpArr xs ys)
    | .dict a, .dict b =>
        (compare a.length b.length).then ((cmpKeys a b).then (cmpVals a b))
    | a, b => compare a.rank b.rank
  /-- `cmparr`: first non-zero comparison of the zipped pairs -/
  def cmpArr : List Val → List Val → Ordering
    | x :: xs, y :: ys => (cmpN x y).then (cmpArr xs ys)
    | _, _ => .eq
  def cmpKeys : List (String × Val) → List (String × Val) → Ordering
    | x :: xs, y :: ys => (compare x.1 y.1).then (cmpKeys xs ys)
    | _, _ => .eq
  def cmpVals : List (String × Val) → List (String × Val) → Ordering
    | x :: xs, y :: ys => (cmpN x.2 y.2).then (cmpVals xs ys)
    | _, _ => .eq
end

mutual
  /-- sort the items of every dict by key, recursively -/
  def Val.norm : Val → Val
    | .cell c => .cell c
    | .list xs => .list (normList xs)
    | .tuple xs => .tuple (normList xs)
    | .dict kvs => .dict (sortKV (normKVs kvs))
  def normList : List Val → List Val
    | [] => []
    | x :: xs => x.norm :: normList xs
  def normKVs : List (String × Val) → List (String × Val)
    | [] => []
    | (k, v) :: kvs => (k, v.norm) :: normKVs kvs
end

/-- the model of `pyg_base.cmp` -/
def cmp (a b : Val) : Ordering := cmpN a.norm b.norm

def cmpLe (a b : Val) : Bool := (cmp a b).isLE

/-! ### missing dates

`pd.NaT` is an instance of `datetime.datetime` (so `cmp` ranks it with the datetimes, `_sort.py` type test) and all its native
comparisons are False, exactly as NaN among the floats; `np.datetime64('NaT')` is turned into `pd.NaT` by `as_primitive`
(`dt`).  `cmp` gives it the place NaN has among the floats: equal to itself, above every other datetime
(`_sort.py`: `xnan = isinstance(x, (float, datetime.datetime)) and x != x`).  The shared `Cell` has no constructor for it
(it is the vocabulary of all twenty models), so the missing date is added here, beside the values: `ValN`.  It is modelled as
one of the two things compared; a missing date INSIDE a container is outside the model (sampled by the implementation-only
laws). -/
inductive ValN where
  | nat
  | val (v : Val)
  deriving Repr, Inhabited

def ValN.rank : ValN → Nat
  | .nat => 2
  | .val v => v.rank

/-- the model of `pyg_base.cmp` when one of the two values may be the missing date -/
def cmpNaT : ValN → ValN → Ordering
  | .nat, .nat => .eq
  | .nat, .val v => (compare 2 v.rank).then .gt
  | .val v, .nat => (compare v.rank 2).then .lt
  | .val a, .val b => cmp a b

/-- the model of `pyg_base.sort`: a stable sort by `cmp`
(`sorted(xs, key = Cmp)`; when native `sorted` does not raise and no NaN is present it is
the same list — assumption "native order agrees with cmp", sampled by correspondence). -/
def sort (xs : List Val) : List Val := xs.mergeSort cmpLe

end Pyg
