/-
  PygModel.Zip — `zlens` / `zzipper` (src/pyg_base/_zip.py:6-72), `len0` (_loop.py:13-38),
  `as_list` / `as_tuple` (src/pyg_base/_as_list.py:11-104, default `none = False`).
  ranges, zips, dict views, numpy arrays are not modelled.
-/
import PygModel.Basic

namespace Pyg

/-- `len0`: `len(value)`, 0 for strings and for anything without `__len__` -/
def len0 : Val → Nat
  | .list xs => xs.length
  | .tuple xs => xs.length
  | .dict kvs => kvs.length
  | .cell _ => 0

/-- `set(all_lens) - {1}`: more than one member raises, one member is the answer, none gives 1.
(The set is modelled by "every remaining length equals the first remaining one".) -/
def lensOf (ls : List Nat) : Res Nat :=
  if ls.isEmpty then .ok 0
  else match ls.filter (· != 1) with
    | [] => .ok 1
    | n :: rest => if rest.all (· == n) then .ok n else .error .value

/-- `zlens(*values)` -/
def zlens (vs : List Val) : Res Nat := lensOf (vs.map len0)

/-- `is_iterable(value)`: lists, tuples, dicts (which iterate over their keys); never strings -/
def isIterable : Val → Bool
  | .cell _ => false
  | _ => true

/-- the items `zip` will see: `value if is_iterable(value) else [value]` -/
def items : Val → List Val
  | .list xs => xs
  | .tuple xs => xs
  | .dict kvs => kvs.map fun p => .cell (.str p.1)
  | .cell c => [.cell c]

def minLen : List (List Val) → Nat
  | [] => 0
  | [c] => c.length
  | c :: cs => min c.length (minLen cs)

/-- `zip(*cols)` as a list of rows; `zip()` is empty -/
def zipN (cols : List (List Val)) : List (List Val) :=
  (List.range (minLen cols)).map fun i => cols.map fun c => c.getD i (.cell .none)

/-- `list(value) * n if len(value) == 1 else value` -/
def zbcast (n : Nat) (c : List Val) : List Val :=
  match c with
  | [x] => List.replicate n x
  | _ => c

/-- `zzipper(*values)` (as the list of tuples the returned `zip` yields) -/
def zzipper (vs : List Val) : Res (List Val) :=
  let cols := vs.map items
  match lensOf (cols.map List.length) with
  | .error e => .error e
  | .ok n =>
    let cols := if n > 1 then cols.map (zbcast n) else cols
    .ok ((zipN cols).map .tuple)

/-- `as_list(value)` -/
def asList : Val → List Val
  | .cell .none => []
  | .list xs => xs
  | .tuple [.list xs] => xs
  | .tuple xs => xs
  | v => [v]

/-- `as_tuple(value)` -/
def asTuple : Val → List Val
  | .cell .none => []
  | .tuple [.list xs] => xs
  | .tuple xs => xs
  | .list xs => xs
  | v => [v]

end Pyg
