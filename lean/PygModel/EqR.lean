/-
  PygModel.EqR — `pyg_base.eq` (src/pyg_base/_eq.py:22-97) as a function that CAN raise: `Res Bool`.

  `PygModel.Eq` models `eq` as a total boolean function, so "never raises" is true there by construction.
  Here the python operations of `eq` that raise on some operands are explicit error outcomes:

  * `minR`      `min([...])` of an empty list                      ValueError   (list / tuple branch :72)
  * `veqShape`  `np.vectorize(eq)(x, y)`: operands that cannot be broadcast together, or a result of size 0
                ("cannot call `vectorize` on size 0 inputs unless `otypes` is set")   ValueError   (:74, :76)
  * `unzipR`    `xkey, xval = zip(*sorted(x.items()))` of an empty dict ("not enough values to unpack")
                                                                      ValueError   (:81-82)
  * `lenR`      `len(x)` of a 0-d ndarray ("len() of unsized object")  TypeError    (pinned code only, :74)

  and the code's guards are written as the code has them: `len(x) == 0 or …`, `x.shape == y.shape and
  (0 in x.shape or …)`, `if len(x) == 0: return True`.  `eqR` is the repaired code; `eqPinned` has the ndarray
  branch of the pinned tree (before fix 75a5baf, finding F6c) with numpy's broadcasting.  The comparison of two
  scalars (`x == y` inside `try/except`, NaN test) cannot raise and is `cellEq`; `sorted` on the string keys of the
  universe cannot raise; `bool()` is never applied to an array (every `==` result is reduced by `np.all`).
-/
import PygModel.Eq

namespace Pyg
namespace EqRM
open EqM

/-- `min(bs)`; python raises `ValueError: min() arg is an empty sequence` -/
def minR : List Bool → Res Bool
  | [] => .error .value
  | bs => .ok (bs.all id)

/-- `len(x)` of an ndarray of the given shape -/
def lenR : List Nat → Res Nat
  | [] => .error .type
  | n :: _ => .ok n

/-- numpy broadcasting of two shapes written last axis first: axes must be equal or one of them 1 -/
def broadcastRev : List Nat → List Nat → Option (List Nat)
  | [], t => some t
  | s, [] => some s
  | a :: s, b :: t =>
    if a = b ∨ b = 1 then (broadcastRev s t).map (a :: ·)
    else if a = 1 then (broadcastRev s t).map (b :: ·)
    else Option.none

def broadcast (s t : List Nat) : Option (List Nat) := (broadcastRev s.reverse t.reverse).map List.reverse

/-- the shape of `np.vectorize(eq)(x, y)`, when numpy can compute it -/
def veqShape (s t : List Nat) : Res (List Nat) :=
  match broadcast s t with
  | Option.none => .error .value                       -- operands could not be broadcast together
  | some r => if r.contains 0 then .error .value       -- vectorize on size 0 inputs
              else .ok r

/-- `zip(*items)` into keys and values -/
def unzipR {α} : List (String × α) → Res (List String × List α)
  | [] => .error .value
  | kvs => .ok (kvs.map (·.1), kvs.map (·.2))

/-- the multi-index of the `k`-th cell (row-major) of an array of shape `r` -/
def unravel : List Nat → Nat → List Nat
  | [], _ => []
  | _ :: ds, k => k / ds.foldl (· * ·) 1 :: unravel ds (k % ds.foldl (· * ·) 1)

/-- position (row-major) in an array of shape `s` of the cell that numpy broadcasts to multi-index `idx`
(`idx` aligned with `s`): an axis of length 1 is repeated -/
def ravelB (s idx : List Nat) : Nat :=
  (s.zip idx).foldl (fun acc di => acc * di.1 + (if di.1 = 1 then 0 else di.2)) 0

/-- the cells of an array of shape `s` broadcast to shape `r` -/
def bcastCells {α} (s r : List Nat) (xs : List α) : List α :=
  (List.range (r.foldl (· * ·) 1)).filterMap fun k => xs[ravelB s ((unravel r k).drop (r.length - s.length))]?

/-- :72  `len(x) == len(y) and (len(x) == 0 or min([eq(i, j) for i, j in zip(x, y)]))`; `z` is the list comprehension -/
def seqBranch (n m : Nat) (z : Res (List Bool)) : Res Bool :=
  if n ≠ m then .ok false
  else if n = 0 then .ok true
  else z.bind minR

/-- `0 in x.shape or np.all(veq(x, y))`; `z` are the cell comparisons `veq` makes -/
def cellsBranch (s t : List Nat) (z : Res (List Bool)) : Res Bool :=
  if s.contains 0 then .ok true
  else (veqShape s t).bind fun _ => z.map fun bs => bs.all id

/-- :74  `x.shape == y.shape and (0 in x.shape or np.all(veq(x, y)))` -/
def arrBranch (s t : List Nat) (z : Res (List Bool)) : Res Bool :=
  if s ≠ t then .ok false else cellsBranch s t z

/-- :78-85  the dict branch on items sorted by key; `z` is `[eq(i, j) for i, j in zip(xval, yval)]` -/
def dictBranch {α} (c d : Nat) (a b : List (String × α)) (z : Res (List Bool)) : Res Bool :=
  if c ≠ d ∨ a.length ≠ b.length then .ok false
  else if a.length = 0 then .ok true
  else (unzipR a).bind fun x => (unzipR b).bind fun y =>
    if x.1 ≠ y.1 then .ok false              -- eq(xkey, ykey): tuples of strings
    else seqBranch x.2.length y.2.length z      -- eq(xval, yval): tuples

end EqRM

open EqM EqRM

mutual
  /-- the repaired `eq` on values whose dict items are sorted -/
  def eqNR : EVal → EVal → Res Bool
    | .cell a, .cell b => .ok (cellEq a b)                -- NaN test / `x == y` in try-except: never raises
    | .date a, .date b => .ok (a == b)
    | .tdelta a, .tdelta b => .ok (a == b)
    | .cdelta a, .cdelta b => .ok (a == b)
    | .fdt a, .fdt b => .ok (a == b)
    | .ftd a, .ftd b => .ok (a == b)
    | .nat, .nat => .ok true                              -- `x is y`
    | .sub c xs, .sub d ys => if c ≠ d then .ok false else seqBranch xs.length ys.length (zipR xs ys)   -- :72 `type(x) == type(y) and ...`
    | .index i, .index j => .ok (idxEq i j)               -- pd.Index branch: `eq(list(x), list(y))` on lists of labels (scalars), as for the axes of a Series
    | .list xs, .list ys => seqBranch xs.length ys.length (zipR xs ys)              -- :72
    | .tuple xs, .tuple ys => seqBranch xs.length ys.length (zipR xs ys)            -- :72
    | .arr s xs, .arr t ys => arrBranch s t (zipR xs ys)                            -- :74
    | .series i xs, .series j ys =>                                                 -- :76  eq(index) and (0 in x.shape or …)
        if !idxEq i j then .ok false else cellsBranch [i.length] [j.length] (zipR xs ys)
    | .frame i c xs, .frame j d ys =>                                               -- :76  eq(index) and eq(columns) and …
        if !idxEq i j then .ok false
        else if !idxEq c d then .ok false
        else cellsBranch [i.length, c.length] [j.length, d.length] (zipR xs ys)
    | .dict c a, .dict d b => dictBranch c d a b (zipValsR a b)                     -- :78-85
    | _, _ => .ok false                                    -- type(x) != type(y); scalar vs container
  /-- `[eq(i, j) for i, j in zip(x, y)]`: every pair is evaluated, an exception propagates -/
  def zipR : List EVal → List EVal → Res (List Bool)
    | x :: xs, y :: ys => (eqNR x y).bind fun b => (zipR xs ys).map fun bs => b :: bs
    | _, _ => .ok []
  /-- the same over the values of two item lists -/
  def zipValsR : List (String × EVal) → List (String × EVal) → Res (List Bool)
    | x :: xs, y :: ys => (eqNR x.2 y.2).bind fun b => (zipValsR xs ys).map fun bs => b :: bs
    | _, _ => .ok []
end

/-- the repaired `pyg_base.eq` with its raising operations explicit -/
def eqR (a b : EVal) : Res Bool := eqNR a.norm b.norm

/-- all comparisons of a list of pairs, raising when one raises (`np.all(veq(x, y))` evaluates every cell) -/
def allPairsR : List (EVal × EVal) → Res Bool
  | [] => .ok true
  | p :: ps =>
    match eqNR p.1 p.2 with
    | .error e => .error e
    | .ok b => match allPairsR ps with
      | .error e => .error e
      | .ok r => .ok (b && r)

/-- the ndarray branch of the PINNED code (before 75a5baf):
`type(x) == type(y) and len(x) == len(y) and _eq_attrs(x, y, ['__shape__']) and (0 in x.shape or np.all(veq(x, y)))`
— `__shape__` does not exist, so shapes are never compared and `veq` broadcasts -/
def arrPinned (s : List Nat) (xs : List EVal) (t : List Nat) (ys : List EVal) : Res Bool :=
  match lenR s, lenR t with
  | .error e, _ => .error e
  | _, .error e => .error e
  | .ok n, .ok m =>
    if n ≠ m then .ok false
    else if s.contains 0 then .ok true
    else match veqShape s t with
      | .error e => .error e
      | .ok r => allPairsR ((bcastCells s r xs).zip (bcastCells t r ys))

/-- `eq` with the pinned ndarray branch at the top (cells are compared by the repaired `eq`) -/
def eqPinned (a b : EVal) : Res Bool :=
  match a.norm, b.norm with
  | .arr s xs, .arr t ys => arrPinned s xs t ys
  | a', b' => eqNR a' b'

end Pyg
