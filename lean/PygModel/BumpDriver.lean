/- line-protocol handlers for the dt_bump model and for the generated integer kernels it uses -/
import PygModel.Bump

namespace Pyg.BumpDriver
open Pyg Pyg.Bump

abbrev St := Unit
def init : St := ()
def modelName : String := "bump"

def reply : Res Int → String
  | .ok t => s!"ok T:{t}"
  | .error e => "err " ++ e.render

def argOf : Sexp → Option BumpArg
  -- `(L I:us)` a `datetime.timedelta`; `(Lpd I:us)` the same duration as a `pd.Timedelta`, `(Lnp I:us)` as a `np.timedelta64[us|ms|s|m|h|D]`
  -- (`t + bump` adds exactly that much time for each of them: assumed, sampled - round k3)
  | .node [.atom "L", a] | .node [.atom "Lpd", a] | .node [.atom "Lnp", a] => match Cell.parse (match a with | .atom s => s | _ => "") with
      | some (.int us) => some (.delta us)
      | _ => none
  -- `(NPI <numpy type> I:n)`: the integer held by a numpy scalar of the named width (np.int8 … np.int64)
  | .node [.atom "NPI", _, a] => match Cell.parse (match a with | .atom s => s | _ => "") with
      | some (.int n) => some (.int n)
      | _ => none
  | .atom s => match Cell.parse s with
      | some (.int n) => some (.int n)
      | some (.str s) => some (.str s)
      | _ => none
  | _ => none

def intOf : Sexp → Option Int
  | .atom s => match Cell.parse s with
      | some (.int n) => some n
      | _ => none
  | _ => none

def timeOf : Sexp → Option Int
  | .atom s => match Cell.parse s with
      | some (.dt n) => some n
      | _ => none
  | _ => none

/-- `(bump <op> <args>)` -/
def handle1 (op : String) (args : List Sexp) : Option String := do
  match op, args with
  -- `bumpas kind t bs…`: the start handed over as another python object denoting the same instant (`date`, `ts` = pd.Timestamp,
  -- `np` / `npD` = np.datetime64[us] / [D], `iso` / `isod` = ISO text, `ymd` = yyyymmdd int): `dt_bump` begins with
  -- `t if isinstance(t, datetime) else dt(t)` (_dates.py:379); that `dt` of each spelling is the instant is C04.
  | "bump", t :: bs | "bumpas", _ :: t :: bs =>
      let t ← timeOf t
      let bs ← bs.mapM argOf
      pure (reply (dtBump t bs))
  | "dt", t :: bs =>
      let t ← timeOf t
      let bs ← bs.mapM argOf
      pure (reply (dtReduce t bs))
  -- `dt(bump)` with today's midnight given explicitly: `ok T:..` / `err ..` / `ok N` when the text is not a period
  | "dtrel", [t, b] =>
      let t ← timeOf t
      match ← argOf b with
      | .str s => pure (match dtOfBump t s with | some r => reply r | none => "ok N")
      | _ => none
  -- the generated kernels on their own (translator validation grid)
  | "ym", [y, m] =>
      let y ← intOf y; let m ← intOf m
      let p := Gen.ym y m
      pure s!"ok (T I:{p.1} I:{p.2})"
  | "ymd", [y, m, d] =>
      let y ← intOf y; let m ← intOf m; let d ← intOf d
      pure (reply (ymdDate y m d))
  | "boff", [w, n] =>
      let w ← intOf w; let n ← intOf n
      pure s!"ok I:{Gen.bOff w n}"
  | _, _ => none

def handle (s : St) (op : String) (args : List Sexp) : Option (St × String) :=
  (handle1 op args).map fun r => (s, r)

end Pyg.BumpDriver
