/- line-protocol handlers for the dt_bump model and for the generated integer kernels it uses -/
import PygModel.Bump

namespace Pyg.BumpDriver
open Pyg Pyg.Bump

abbrev St := Unit
def init : St := ()
def modelName : String := "bump"

def reply : Res Int → String
  | .ok t => s!"ok T:{t}"
  | .error e => "err " ++ e.render

def argOf : Sexp → Option BumpArg
  | .node [.atom "L", a] => match Cell.parse (match a with | .atom s => s | _ => "") with
      | some (.int us) => some (.delta us)
      | _ => none
  | .atom s => match Cell.parse s with
      | some (.int n) => some (.int n)
      | some (.str s) => some (.str s)
      | _ => none
  | _ => none

def intOf : Sexp → Option Int
  | .atom s => match Cell.parse s with
      | some (.int n) => some n
      | _ => none
  | _ => none

def timeOf : Sexp → Option Int
  | .atom s => match Cell.parse s with
      | some (.dt n) => some n
      | _ => none
  | _ => none

/-- `(bump <op> <args>)` -/
def handle1 (op : String) (args : List Sexp) : Option String := do
  match op, args with
  | "bump", t :: bs =>
      let t ← timeOf t
      let bs ← bs.mapM argOf
      pure (reply (dtBump t bs))
  | "dt", t :: bs =>
      let t ← timeOf t
      let bs ← bs.mapM argOf
      pure (reply (dtReduce t bs))
  -- `dt(bump)` with today's midnight given explicitly: `ok T:..` / `err ..` / `ok N` when the text is not a period
  | "dtrel", [t, b] =>
      let t ← timeOf t
      match ← argOf b with
      | .str s => pure (match dtOfBump t s with | some r => reply r | none => "ok N")
      | _ => none
  -- the generated kernels on their own (translator validation grid)
  | "ym", [y, m] =>
      let y ← intOf y; let m ← intOf m
      let p := Gen.ym y m
      pure s!"ok (T I:{p.1} I:{p.2})"
  | "ymd", [y, m, d] =>
      let y ← intOf y; let m ← intOf m; let d ← intOf d
      pure (reply (ymdDate y m d))
  | "boff", [w, n] =>
      let w ← intOf w; let n ← intOf n
      pure s!"ok I:{Gen.bOff w n}"
  | _, _ => none

def handle (s : St) (op : String) (args : List Sexp) : Option (St × String) :=
  (handle1 op args).map fun r => (s, r)

end Pyg.BumpDriver
