/-
  PygModel.SortCode — `pyg_base.sort` AS THE CODE RUNS IT (src/pyg_base/_sort.py:112-150), branch by branch, on scalars that carry
  their python SPELLING (review v2, C07 item 4: "which lists take which branch, and each branch is cmp-sorted" was sampled only):

      values = list(iterable)
      if not _has_nan(values) and not _has_str_subclass(values):
          try:    return sorted(values, key = as_primitive) if _has_numpy(values) else sorted(values)
          except TypeError: pass
      return sorted(values, key = Cmp)

  `PygModel.Cmp.sort` is `sorted(key = Cmp)` alone, on values the harness has already normalised.  Here the three predicates and
  the TypeError fallback are part of the model; Props/C07 proves that every branch returns the stable `cmp`-sort of the input
  (`codeSort_eq_cmpSort`), so the branch a list takes is unobservable.
  Assumed about CPython (sampled by the op `sortcode`): `sorted()` is a stable sort by native `<`, and it raises TypeError exactly
  when the list has two or more members and some pair of them cannot be compared (`nativeSorted`).
  Not here: `np.str_` (no cell: cmp ranks it by its own type, fix a157541 sends such lists to the `Cmp` branch), bools (outside the
  quantifier of `sort`), `datetime.date` / `np.datetime64` members, tuples.
-/
import PygModel.Native

namespace Pyg

/-- a scalar as `sort` sees it: the cell it denotes and how it is spelled -/
inductive PyCell where
  /-- a python object: None, int, float (NaN, ±inf), str, datetime -/
  | py (c : Cell)
  /-- a numpy number (`isinstance(x, np.number)`: np.int8..uint64, longlong, float16..longdouble) denoting the number `c` -/
  | np (c : Cell)
  /-- a `pd.Timestamp`: a subclass of datetime that `as_primitive` keeps -/
  | ts (us : Int)
  /-- the missing date `pd.NaT` / `np.datetime64('NaT')` -/
  | nat
  deriving Repr, Inhabited

/-- `as_primitive` (what `cmp` compares, `_as_primitive.py:6-25`) -/
def PyCell.prim : PyCell → ValN
  | .py c => .val (.cell c)
  | .np c => .val (.cell c)
  | .ts us => .val (.cell (.dt us))
  | .nat => .nat

/-- the cell a present value denotes -/
def PyCell.cell? : PyCell → Option Cell
  | .py c => some c
  | .np c => some c
  | .ts us => some (.dt us)
  | .nat => Option.none

/-- `_has_nan` on one member (`isinstance(value, (float, np.floating, datetime, np.datetime64)) and value != value`) -/
def PyCell.hasNan : PyCell → Bool
  | .py .nan => true
  | .np .nan => true
  | .nat => true
  | _ => false

/-- `_has_numpy` on one member -/
def PyCell.isNumpy : PyCell → Bool
  | .np _ => true
  | _ => false

def PyCell.isBool : PyCell → Bool
  | .py c => c.isBool
  | .np c => c.isBool
  | _ => false

/-- the native comparison `sorted()` performs between two members: on the `as_primitive` images when a numpy number is present,
else on the objects themselves - then no member is a numpy number, and a Timestamp compares with a datetime by value, so both are
`Cell.native` of the denoted cells; `none` = TypeError (and the missing date, which never reaches `sorted()`) -/
def PyCell.nativeKey (a b : PyCell) : Option Ordering :=
  match a.cell?, b.cell? with
  | some x, some y => x.native y
  | _, _ => Option.none

/-- native `a <= b` as a stable sort uses it (`not b < a`); false where the comparison raises -/
def PyCell.nativeLe (a b : PyCell) : Bool :=
  match a.nativeKey b with
  | some o => o != .gt
  | Option.none => false

/-- `cmp` on spelled scalars -/
def cmpPy (a b : PyCell) : Ordering := cmpNaT a.prim b.prim

def cmpPyLe (a b : PyCell) : Bool := (cmpPy a b).isLE

def allComparable (xs : List PyCell) : Bool :=
  xs.all fun a => xs.all fun b => (a.nativeKey b).isSome

/-- CPython's `sorted(values[, key = as_primitive])`: `none` = TypeError -/
def nativeSorted (xs : List PyCell) : Option (List PyCell) :=
  if xs.length ≤ 1 then some xs
  else if allComparable xs then some (xs.mergeSort PyCell.nativeLe)
  else Option.none

inductive SortBranch where
  /-- a NaN / NaT is present: `sorted(values, key = Cmp)` at once -/
  | cmpKey
  /-- a numpy number is present and the native sort of the `as_primitive` images returned -/
  | nativePrim
  /-- the native sort of the objects returned -/
  | native
  /-- the native sort raised TypeError: `sorted(values, key = Cmp)` -/
  | fallback
  deriving Repr, DecidableEq

def SortBranch.name : SortBranch → String
  | .cmpKey => "cmpkey"
  | .nativePrim => "nativeprim"
  | .native => "native"
  | .fallback => "fallback"

/-- which return statement of `sort` a list reaches -/
def codeBranch (xs : List PyCell) : SortBranch :=
  if xs.any PyCell.hasNan then .cmpKey
  else match nativeSorted xs with
    | some _ => if xs.any PyCell.isNumpy then .nativePrim else .native
    | Option.none => .fallback

/-- `pyg_base.sort(xs)` as the code computes it -/
def codeSort (xs : List PyCell) : List PyCell :=
  if xs.any PyCell.hasNan then xs.mergeSort cmpPyLe
  else match nativeSorted xs with
    | some l => l
    | Option.none => xs.mergeSort cmpPyLe

end Pyg
