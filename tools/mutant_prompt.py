#!/usr/bin/env python3
"""prints the prompt for a seeding sub-agent: property text only + its scratch worktree (nothing from /verif)"""
import json, sys
pid, wt, n = sys.argv[1], sys.argv[2], int(sys.argv[3]) if len(sys.argv) > 3 else 3
p = [json.loads(l) for l in open('/verif/properties.jsonl') if json.loads(l)['id'] == pid][0]
print(f"""You are testing how well a verification effort can detect regressions in the Python library gityoav/pyg-base (pure-Python quant-research utilities). You get one semantic property of the library and your own scratch git worktree of the repository. Your job: write {n} DIFFERENT, realistic changes to the library's source, each of which BREAKS the property while the package still imports and the existing test suite still passes; and for each a small demonstration program that fails with the change and passes without it.

Your scratch worktree (work ONLY here; it is a git worktree, `git diff` shows your change, `git checkout -- .` undoes it): {wt}
Python: /venv/bin/python (run things as `cd {wt} && PYTHONPATH={wt}/src /venv/bin/python ...`). There is no network. Put scratch files under /dev/shm, not /tmp. NEVER use `git stash` (the stash is shared by all worktrees of the repository and other people work in sibling worktrees): to set a change aside use `git diff > /dev/shm/<yourfile>.diff; git checkout -- .` and `git apply` it back. The prompt's test command with `-x` stops at pre-existing collection errors: run the suite with `-rA --continue-on-collection-errors` and compare the sorted per-test outcome lists before/after. Wrap anything that might hang in `timeout 300`.
Existing tests: `cd {wt} && PYTHONPATH={wt}/src /venv/bin/python -m pytest -q -p no:cacheprovider --timeout=900 tests -x -q 2>&1 | tail -5`. On the unmodified tree 224 tests pass and 20 fail (the 20 failures are pre-existing and unrelated: they fail identically before and after your change). A change is acceptable only if the set of passing tests is unchanged (compare `-rA`/junit output before and after, or at least the pass/fail counts plus the names of failures).

The property
  id: {p['id']}
  title: {p['title']}
  statement: {p['statement']}
  quantifier: {p['quantifier']['text']}
  source files it is anchored in: {', '.join(p['anchors']['files'])}
  mechanisms in the code that are meant to make it hold: {'; '.join(m['name'] + ' (' + m.get('where','') + ')' for m in p['anchors']['mechanism'])}

Requirements for each change
 - It is the kind of edit a developer could plausibly make (a refactor gone subtly wrong, an optimisation, an off-by-one, a changed comparison, a dropped special case, a reordered step, a cache/aliasing slip), a few lines, not sabotage and not a syntax-level absurdity.
 - It must need something SPECIFIC to manifest: an unusual input (NaN, empty table, duplicate keys, mixed types, a particular weekday/month end, a particular length), a multi-step sequence of operations, a particular interleaving/order, or two cooperating sites that each look fine alone. Changes that ordinary use or the existing tests would expose at once are not wanted.
 - The {n} changes must differ in mechanism and in the clause of the property they break.
 - The package must import, and the existing test suite must pass exactly as before.
Deliverables: create the directory {wt}/../out/<k>/ for k = 1..{n} (i.e. next to the worktree) containing
   patch.diff   - `git diff` of the change against the worktree's HEAD (apply-able with `git apply`)
   demo.py      - a standalone program using only the library's public behaviour: exits 0 (prints PASS) on the unmodified tree and exits 1 (prints FAIL and what went wrong) with the change applied; run with PYTHONPATH=<tree>/src
   meta.json    - {{"property": "{p['id']}", "clause": "<which clause of the statement breaks>", "needs": "<what specific input/sequence it needs in order to manifest>", "why_tests_pass": "<why the existing suite does not notice>", "ran": "<the commands you ran and their results: tests before/after, demo before/after>"}}
Leave the worktree clean (`git checkout -- .`) when you finish. Reply with a short list of the {n} changes (one line each) and confirm the checks you ran.""")
