#!/usr/bin/env python3
"""lists Lean declarations defined under the same full name in two files of lean/ (they would clash when both are imported)"""
import re, os, collections, sys
here = os.path.dirname(os.path.abspath(__file__))
os.chdir(os.path.join(here, '..', 'lean'))
defs = collections.defaultdict(list)
for top in ('PygModel', 'PygProofs', 'PygGen'):
    for root, _, files in os.walk(top):
        for f in files:
            if not f.endswith('.lean'):
                continue
            p = os.path.join(root, f)
            ns = []
            for line in open(p):
                m = re.match(r'^namespace\s+(\S+)', line)
                if m:
                    ns.append(m.group(1)); continue
                m = re.match(r'^end\s+(\S+)', line)
                if m and ns:
                    ns.pop(); continue
                m = re.match(r'^\s*(?:@\[[^\]]*\]\s*)?(?:protected\s+|partial\s+|noncomputable\s+)*(?:def|abbrev|structure|inductive|theorem|lemma|class)\s+([^\s:({\[]+)', line)
                if m:
                    defs['.'.join(ns + [m.group(1)])].append(p)
bad = {k: sorted(set(v)) for k, v in defs.items() if len(set(v)) > 1}
for k, v in sorted(bad.items()):
    print(k, v)
sys.exit(1 if bad else 0)
