#!/usr/bin/env python3
"""rewrites the generated tables of DESIGN.md section 15 (between <!-- GEN:x --> ... <!-- /GEN:x --> markers) from
known_findings.json, seeded/*/meta.json (+ seeded/NOTES.json) and evidence/*.json"""
import json, os, glob, re
here = os.path.dirname(os.path.abspath(__file__))
V = os.path.join(here, '..')


def short(s, n):
    s = ' '.join(str(s).split()).replace('|', '/')
    return s if len(s) <= n else s[:n - 1] + '…'


def defects():
    kf = json.load(open(os.path.join(V, 'known_findings.json')))['findings']
    out = ['| id | property | what failed on the pinned tree (replayed by the check) | outcome |', '|---|---|---|---|']
    for e in sorted(kf, key=lambda e: (e['property'], str(e['id']))):
        text = re.sub(r'^fixed: property=\S+ \S+ ', '', e['text'])
        outcome = 'fixed `%s`' % e['commit'] if e['status'] == 'fixed' else 'KNOWN-FINDING (matcher `%s`)' % e.get('matcher')
        out.append('| %s | %s | %s | %s |' % (e['id'], e['property'], short(text, 330), outcome))
    return '\n'.join(out)


def seeded():
    notes = json.load(open(os.path.join(V, 'seeded', 'NOTES.json')))
    out = ['| seeded change | property | clause it breaks / what it needs | quick tier | how / history |', '|---|---|---|---|---|']
    names = set()
    for d in sorted(glob.glob(os.path.join(V, 'seeded', '*', 'meta.json'))):
        name = os.path.basename(os.path.dirname(d))
        names.add(name)
        m = json.load(open(d))
        det = m.get('detection', {}).get('quick', {})
        verdict = ('caught, concrete replay' if det.get('concrete_replay') else 'reported, no-failing-input-found' if det.get('detected') else 'MISSED') if det else 'not run'
        if m.get('obsolete'):
            verdict += ' (patch obsolete now)'
        if m.get('neutral_now'):
            verdict = 'caught while it was harmful; harmless since a later fix: (its demo passes with the patch applied) and the check is now rightly silent'
        out.append('| %s | %s | %s — needs: %s | %s | %s |' % (name, m['property'], short(m.get('clause', ''), 140), short(m.get('needs', ''), 200), verdict, short(notes.get(name, 'caught by the first run'), 300)))
    for name, n in sorted(notes.items()):
        if name not in names:
            out.append('| %s | %s | | not kept | %s |' % (name, name[:3], short(n, 300)))
    return '\n'.join(out)


def status():
    man = json.load(open(os.path.join(V, 'MANIFEST.json')))
    out = ['| property | theorems (all discharged, axioms ⊆ propext/Classical.choice/Quot.sound) | quick: lines / law instances / s | notes |', '|---|---|---|---|']
    for c in man['checks']:
        pid = c['property_id']
        try:
            e = json.load(open(os.path.join(V, 'evidence', pid + '.json')))
            cov = e['coverage']
            out.append('| %s | %d | %s / %s / %.0f | `docs/notes/%s.md` |' % (pid, cov.get('obligations', 0), cov.get('evaluations', 0) - cov.get('law_instances', 0), cov.get('law_instances', 0), e['wall_s'], pid))
        except Exception:
            out.append('| %s | ? | ? | |' % pid)
    return '\n'.join(out)


def main():
    p = os.path.join(V, 'DESIGN.md')
    s = open(p).read()
    for key, fn in (('defects', defects), ('seeded', seeded), ('status', status)):
        a, b = '<!-- GEN:%s -->' % key, '<!-- /GEN:%s -->' % key
        if a in s and b in s:
            s = s[:s.index(a) + len(a)] + '\n' + fn() + '\n' + s[s.index(b):]
    open(p, 'w').write(s)


if __name__ == '__main__':
    main()
