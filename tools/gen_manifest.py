#!/usr/bin/env python3
"""regenerates MANIFEST.json from tools/manifest_src.py (claimed checks) - properties not claimed yet are listed under not_applicable"""
import json, os, sys
here = os.path.dirname(os.path.abspath(__file__))
NOTES = ("Every check: (1) regenerates the generated Lean definitions from /repo's working tree and runs `lake build` (theorems re-checked), "
         "(2) audits axioms (allowed: propext, Classical.choice, Quot.sound) and greps for sorry/native_decide/axiom, "
         "(3) replays corpus/<id>, runs generated cases through the implementation and the compiled Lean model and diffs canonicalised replies, "
         "(4) applies the property's laws to the implementation's own outputs. Exit 0 / 1 (VIOLATION line) / 2 (machinery failure).")
CHECKS, NOT_APPLICABLE = {}, {}
md = os.path.join(here, 'manifest.d')
for f in sorted(os.listdir(md)):
    if f.endswith('.json'):
        j = json.load(open(os.path.join(md, f)))
        if 'not_applicable' in j:
            NOT_APPLICABLE[f[:-5]] = j['not_applicable']
        else:
            CHECKS[f[:-5]] = j
class S: pass
S.CHECKS, S.NOT_APPLICABLE, S.NOTES = CHECKS, NOT_APPLICABLE, NOTES
# known findings: the committed file known_findings.json is assembled from known_findings.d/*.json
kd = os.path.join(here, '..', 'known_findings.d')
allf = []
for f in sorted(os.listdir(kd)):
    if f.endswith('.json'):
        allf.extend(json.load(open(os.path.join(kd, f))))
json.dump(dict(comment="Committed list of genuine defects of gityoav/pyg-base found by the checks (assembled from known_findings.d/ by tools/gen_manifest.py). "
               "status=known entries are reported as KNOWN-FINDING lines and suppress only the specific input class named by their matcher; "
               "status=fixed entries suppress nothing. Never written at run time.", findings=allf),
          open(os.path.join(here, '..', 'known_findings.json'), 'w'), indent=1)
props = [json.loads(l) for l in open(os.path.join(here, '..', 'properties.jsonl'))]
checks, na = [], []
for p in props:
    pid = p['id']
    c = S.CHECKS.get(pid)
    if c is None:
        na.append(dict(property_id=pid, reason=S.NOT_APPLICABLE.get(pid, 'not claimed yet: model/theorems/correspondence for this property are still being built (see DESIGN.md section 5)')))
        continue
    checks.append(dict(
        property_id=pid,
        quick_cmd='./check %s --tier quick' % pid,
        thorough_cmd='./check %s --tier thorough' % pid,
        evidence_file='evidence/%s.json' % pid,
        replay_cmd_template='./check %s --replay {path}' % pid,
        engine='lean4-proof+correspondence',
        level_claimed=dict(category='proof', text=c['text'], design_ref=c.get('design_ref', 'DESIGN.md section 5 / ' + pid)),
        level_note=c['note'],
        technique=c.get('technique', 'Lean 4 theorems about an executable model + differential correspondence check of the model against the implementation')))
m = dict(
    version=1,
    setup_cmd='./tools/setup.sh',
    hooks=dict(guard='PYG_BASE_VERIF', enable='no source hooks: the harness calls pyg_base in-process from /repo/src (editable install); PYG_BASE_VERIF=1 is exported by ./check but nothing in /repo reads it',
               baseline_off_cmd='cd /repo && /venv/bin/python -m pytest -ra -q -p no:cacheprovider --timeout=900 --continue-on-collection-errors',
               source_commits=[], add_only=True),
    engines=[dict(name='lean4-proof+correspondence', path='check', serves_properties=[c['property_id'] for c in checks],
                  kind_free_text='Lean 4 (core, no Mathlib) models + theorems in lean/, tied to /repo by (G) a python-ast->Lean translator for the integer kernels of _dates.py and (C) a differential line-protocol harness (harness/pv) driving the compiled model and the implementation on the same inputs')],
    checks=checks,
    notes=S.NOTES,
    not_applicable=na)
json.dump(m, open(os.path.join(here, '..', 'MANIFEST.json'), 'w'), indent=1)
print('MANIFEST: %d checks, %d not claimed' % (len(checks), len(na)))

# fingerprints of the anchored source files as they are in /repo now (the checks search harder when one differs)
import subprocess
subprocess.run([("/venv/bin/python" if os.path.exists("/venv/bin/python") else sys.executable), os.path.join(here, "update_anchors.py")], check=False)   # same interpreter as the checks: f-strings tokenise differently across versions
