#!/usr/bin/env python3
"""regenerates MANIFEST.json from tools/manifest_src.py (claimed checks) - properties not claimed yet are listed under not_applicable"""
import json, os, sys
here = os.path.dirname(os.path.abspath(__file__))
sys.path.insert(0, here)
import manifest_src as S
props = [json.loads(l) for l in open(os.path.join(here, '..', 'properties.jsonl'))]
checks, na = [], []
for p in props:
    pid = p['id']
    c = S.CHECKS.get(pid)
    if c is None:
        na.append(dict(property_id=pid, reason=S.NOT_APPLICABLE.get(pid, 'not claimed yet: model/theorems/correspondence for this property are still being built (see DESIGN.md section 5)')))
        continue
    checks.append(dict(
        property_id=pid,
        quick_cmd='./check %s --tier quick' % pid,
        thorough_cmd='./check %s --tier thorough' % pid,
        evidence_file='evidence/%s.json' % pid,
        replay_cmd_template='./check %s --replay {path}' % pid,
        engine='lean4-proof+correspondence',
        level_claimed=dict(category='proof', text=c['text'], design_ref=c.get('design_ref', 'DESIGN.md section 5 / ' + pid)),
        level_note=c['note'],
        technique=c.get('technique', 'Lean 4 theorems about an executable model + differential correspondence check of the model against the implementation')))
m = dict(
    version=1,
    setup_cmd='cd lean && lake build',
    hooks=dict(guard='PYG_BASE_VERIF', enable='no source hooks: the harness calls pyg_base in-process from /repo/src (editable install); PYG_BASE_VERIF=1 is exported by ./check but nothing in /repo reads it',
               baseline_off_cmd='cd /repo && /venv/bin/python -m pytest -ra -q -p no:cacheprovider --timeout=900 --continue-on-collection-errors',
               source_commits=[], add_only=True),
    engines=[dict(name='lean4-proof+correspondence', path='check', serves_properties=[c['property_id'] for c in checks],
                  kind_free_text='Lean 4 (core, no Mathlib) models + theorems in lean/, tied to /repo by (G) a python-ast->Lean translator for the integer kernels of _dates.py and (C) a differential line-protocol harness (harness/pv) driving the compiled model and the implementation on the same inputs')],
    checks=checks,
    notes=S.NOTES,
    not_applicable=na)
json.dump(m, open(os.path.join(here, '..', 'MANIFEST.json'), 'w'), indent=1)
print('MANIFEST: %d checks, %d not claimed' % (len(checks), len(na)))
