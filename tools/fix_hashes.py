#!/usr/bin/env python3
"""known_findings.d entries written in a private worktree name the fix commit's hash on that branch; after the fix has been
cherry-picked into /repo's main the hash differs.  Map every `commit` (and its mention in `text`) to the main commit with the
same subject line."""
import json, os, subprocess, re
here = os.path.dirname(os.path.abspath(__file__))
kd = os.path.join(here, '..', 'known_findings.d')


def git(*a):
    return subprocess.run(['git', '-C', '/repo'] + list(a), stdout=subprocess.PIPE, stderr=subprocess.DEVNULL, text=True).stdout


main = {}
for line in git('log', '--format=%h\t%s', 'main').split('\n'):
    if '\t' in line:
        h, s = line.split('\t', 1)
        main[s] = h
main_hashes = set(main.values())
for f in sorted(os.listdir(kd)):
    p = os.path.join(kd, f)
    js = json.load(open(p))
    changed = False
    for e in js:
        c = e.get('commit')
        if not c or any(m.startswith(c[:7]) or c.startswith(m) for m in main_hashes):
            continue
        subj = git('log', '-1', '--format=%s', c).strip()
        new = main.get(subj)
        if new:
            e['commit'] = new
            e['text'] = e.get('text', '').replace(c, new).replace(c[:7], new)
            changed = True
            print('%s: %s -> %s  (%s)' % (f, c, new, subj[:60]))
        else:
            print('%s: commit %s not on main (subject %r)' % (f, c, subj[:60]))
    if changed:
        json.dump(js, open(p, 'w'), indent=1)

# --- sweep of texts (notes, manifest sources, model comments): a 7..10-hex token that names a commit which is NOT on main but whose
# subject line is the subject of a main commit is rewritten to that main commit (hashes of private branches before the cherry-pick)
import glob
texts = (glob.glob(os.path.join(here, '..', 'docs', 'notes', '*.md')) + glob.glob(os.path.join(here, '..', 'tools', 'manifest.d', '*.json'))
         + glob.glob(os.path.join(here, '..', 'lean', 'Pyg*', '**', '*.lean'), recursive=True) + glob.glob(os.path.join(here, '..', 'harness', 'pv', 'props', '*.py'))
         + [os.path.join(here, '..', 'DESIGN.md')])
memo = {}


def remap(tok):
    if tok not in memo:
        memo[tok] = None
        if not any(m.startswith(tok) or tok.startswith(m) for m in main_hashes):
            subj = git('log', '-1', '--format=%s', tok).strip() if git('cat-file', '-t', tok).strip() == 'commit' else ''
            if subj.startswith('fix:') and subj in main:
                memo[tok] = main[subj]
    return memo[tok]


for p in texts:
    s = open(p).read()
    out = re.sub(r'(?<![0-9a-f])[0-9a-f]{7,10}(?![0-9a-f])', lambda m: remap(m.group(0)) or m.group(0), s)
    if out != s:
        open(p, 'w').write(out)
        print('rewrote stale hashes in', os.path.relpath(p, os.path.join(here, '..')))
