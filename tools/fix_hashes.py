#!/usr/bin/env python3
"""known_findings.d entries written in a private worktree name the fix commit's hash on that branch; after the fix has been
cherry-picked into /repo's main the hash differs.  Map every `commit` (and its mention in `text`) to the main commit with the
same subject line."""
import json, os, subprocess, re
here = os.path.dirname(os.path.abspath(__file__))
kd = os.path.join(here, '..', 'known_findings.d')


def git(*a):
    return subprocess.run(['git', '-C', '/repo'] + list(a), stdout=subprocess.PIPE, stderr=subprocess.DEVNULL, text=True).stdout


main = {}
for line in git('log', '--format=%h\t%s', 'main').split('\n'):
    if '\t' in line:
        h, s = line.split('\t', 1)
        main[s] = h
main_hashes = set(main.values())
for f in sorted(os.listdir(kd)):
    p = os.path.join(kd, f)
    js = json.load(open(p))
    changed = False
    for e in js:
        c = e.get('commit')
        if not c or any(m.startswith(c[:7]) or c.startswith(m) for m in main_hashes):
            continue
        subj = git('log', '-1', '--format=%s', c).strip()
        new = main.get(subj)
        if new:
            e['commit'] = new
            e['text'] = e.get('text', '').replace(c, new).replace(c[:7], new)
            changed = True
            print('%s: %s -> %s  (%s)' % (f, c, new, subj[:60]))
        else:
            print('%s: commit %s not on main (subject %r)' % (f, c, subj[:60]))
    if changed:
        json.dump(js, open(p, 'w'), indent=1)
