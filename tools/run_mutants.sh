#!/bin/bash
# dev tool: apply each mutants/<prefix>*.patch to the repo worktree $PYG_REPO (must be a scratch worktree, never /repo),
# run ./check, restore.  usage: PYG_REPO=/dev/shm/w3/repo tools/run_mutants.sh C09
cd "$(dirname "$0")/.."
: "${PYG_REPO:?set PYG_REPO to a scratch worktree}"
export VERIF_EVIDENCE_DIR="${VERIF_EVIDENCE_DIR:-/dev/shm/mutant-evidence}"
[ "$PYG_REPO" = "/repo" ] && { echo "refusing to mutate /repo"; exit 2; }
pid=$1
for p in mutants/$pid-*.patch; do
  (cd "$PYG_REPO" && git apply "$OLDPWD/$p") || { echo "$p: does not apply"; continue; }
  out=$(timeout 1200 ./check $pid 2>&1); rc=$?
  (cd "$PYG_REPO" && git checkout -- .)
  echo "== $p rc=$rc"
  echo "$out" | grep -E "^VIOLATION|^C[0-9]+ " | cut -c1-220
done
timeout 600 ./check $pid >/dev/null 2>&1; echo "restored tree rc=$?"
