#!/bin/bash
# dev tool: apply each mutants/<PID>-*.patch to the repo worktree ($PYG_REPO, must be a clean git worktree), run ./check, restore.
# usage: PYG_REPO=/dev/shm/wK/repo tools/run_mutants.sh C17
cd "$(dirname "$0")/.."
pid=$1
for p in mutants/$pid-*.patch; do
  (cd "$PYG_REPO" && git apply "$OLDPWD/$p") || { echo "$p: does not apply"; continue; }
  out=$(./check $pid 2>&1 | tail -4)
  rc=$?
  (cd "$PYG_REPO" && git checkout -- .)
  echo "== $p: $(echo "$out" | grep -c VIOLATION) VIOLATION lines; $(echo "$out" | tail -1)"
done
