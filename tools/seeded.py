#!/usr/bin/env python3
"""Seeded-change tooling (development aid, not a registered check).

  tools/seeded.py confirm <candidate_dir> <name>   confirm a sub-agent's candidate (patch.diff, demo.py, meta.json) in a scratch
                                                   worktree: demo passes without / fails with the patch, baseline suite unchanged;
                                                   on success keep it as seeded/<name>/
  tools/seeded.py run <name>|all [--tier quick|thorough]
                                                   apply seeded/<name>/patch.diff to a scratch worktree of /repo, run ./check for its
                                                   property against it (PYG_REPO), remove the worktree; record the outcome in
                                                   seeded/<name>/meta.json and print a table
"""
import os, sys, json, subprocess, shutil, time

VERIF = os.path.dirname(os.path.dirname(os.path.abspath(__file__)))
SCR = os.environ.get('SEEDRUN_DIR', '/dev/shm/seedrun')


def sh(cmd, **kw):
    p = subprocess.run(cmd, shell=True, stdout=subprocess.PIPE, stderr=subprocess.STDOUT, text=True, **kw)
    return p.returncode, p.stdout


def worktree(tag):
    d = os.path.join(SCR, tag, 'repo')
    if os.path.exists(d):
        sh('git -C /repo worktree remove --force %s' % d)
    os.makedirs(os.path.dirname(d), exist_ok=True)
    rc, out = sh('git -C /repo worktree add --detach %s HEAD' % d)
    assert rc == 0, out
    return d


def drop(d):
    sh('git -C /repo worktree remove --force %s' % d)
    shutil.rmtree(os.path.dirname(d), ignore_errors=True)
    sh('git -C /repo worktree prune')


def confirm(cand, name):
    meta = json.load(open(os.path.join(cand, 'meta.json')))
    d = worktree('confirm-' + name)
    res = {}
    try:
        env = 'PYTHONPATH=%s/src' % d
        rc0, out0 = sh('cd %s && %s timeout 600 /venv/bin/python -W ignore %s' % (d, env, os.path.join(cand, 'demo.py')))
        res['demo_without'] = rc0
        rc, out = sh('git -C %s apply %s' % (d, os.path.join(cand, 'patch.diff')))
        if rc != 0:
            res['apply'] = out[-300:]
            print('patch does not apply', out)
            return False
        rc1, out1 = sh('cd %s && %s timeout 600 /venv/bin/python -W ignore %s' % (d, env, os.path.join(cand, 'demo.py')))
        res['demo_with'] = rc1
        res['demo_with_tail'] = out1[-400:]
        rcb, outb = sh('PYG_REPO=%s %s/tools/baseline.sh' % (d, VERIF))
        res['baseline'] = outb.strip()[-300:]
        res['baseline_rc'] = rcb
        rci, outi = sh('cd %s && %s /venv/bin/python -W ignore -c "import pyg_base"' % (d, env))
        res['imports'] = rci == 0
        ok = rc0 == 0 and rc1 != 0 and rcb == 0 and rci == 0
        print(json.dumps(res, indent=1))
        if ok:
            dst = os.path.join(VERIF, 'seeded', name)
            os.makedirs(dst, exist_ok=True)
            for f in ('patch.diff', 'demo.py'):
                shutil.copy(os.path.join(cand, f), os.path.join(dst, f))
            meta['confirmed'] = dict(res, when=time.strftime('%Y-%m-%d %H:%M'), how='tools/seeded.py confirm: demo exit 0 without / non-zero with the patch; tools/baseline.sh 224/224 with the patch; package imports')
            json.dump(meta, open(os.path.join(dst, 'meta.json'), 'w'), indent=1)
        return ok
    finally:
        drop(d)


def run(name, tier):
    sd = os.path.join(VERIF, 'seeded', name)
    meta = json.load(open(os.path.join(sd, 'meta.json')))
    pid = meta['property']
    d = worktree('run-' + name)
    try:
        rc, out = sh('git -C %s apply %s' % (d, os.path.join(sd, 'patch.diff')))
        if rc != 0:
            meta['obsolete'] = 'patch no longer applies to /repo HEAD %s (the lines it edits were rewritten by a later fix: commit); last recorded detection is kept' % sh('git -C /repo rev-parse --short HEAD')[1].strip()
            json.dump(meta, open(os.path.join(sd, 'meta.json'), 'w'), indent=1)
            print('%-28s %s OBSOLETE: patch does not apply any more' % (name, pid))
            return True
        t0 = time.time()
        rc, out = sh('cd %s && VERIF_EVIDENCE_DIR=%s-evidence PYG_REPO=%s timeout 3600 ./check %s --tier %s' % (VERIF, SCR, d, pid, tier))
        lines = [l for l in out.split('\n') if l.startswith('VIOLATION') or l.startswith('KNOWN-FINDING')]
        detected = rc == 1 and any(l.startswith('VIOLATION') for l in lines)
        if not detected and os.path.exists(os.path.join(sd, 'demo.py')):
            # a later fix: commit may have made the change harmless (the repaired code no longer depends on what it edits): then its
            # own demonstration passes WITH the patch, the property holds, and silence is the right answer
            rcd, _ = sh('cd %s && PYTHONPATH=%s/src timeout 600 /venv/bin/python -W ignore %s' % (d, d, os.path.join(sd, 'demo.py')))
            if rcd == 0:
                meta['neutral_now'] = 'on /repo HEAD %s the change no longer breaks the property: its demo passes with the patch applied and the check (rightly) stays silent; last recorded detection is kept' % sh('git -C /repo rev-parse --short HEAD')[1].strip()
                json.dump(meta, open(os.path.join(sd, 'meta.json'), 'w'), indent=1)
                print('%-28s %s NEUTRAL NOW: demo passes with the patch, check exit=%d' % (name, pid, rc))
                return rc == 0
        concrete = detected and any(l.startswith('VIOLATION') and not l.rstrip().endswith('no-failing-input-found') for l in lines)
        meta.setdefault('detection', {})[tier] = dict(detected=detected, concrete_replay=concrete, exit=rc, lines=lines[:4], wall_s=round(time.time() - t0, 1),
                                                      tail=out.strip().split('\n')[-1][:300])
        json.dump(meta, open(os.path.join(sd, 'meta.json'), 'w'), indent=1)
        print('%-28s %s %-8s exit=%d detected=%s concrete=%s  %s' % (name, pid, tier, rc, detected, concrete, (lines or [''])[0][:100]))
        return detected
    finally:
        drop(d)
        # bring generated Lean files back in line with /repo itself
        sh('cd %s && python3 -c "import sys; sys.path.insert(0, \'harness\'); from pv import translate; translate.regenerate(\'/repo\', \'lean\')" 2>/dev/null' % VERIF)


def main():
    if sys.argv[1] == 'confirm':
        sys.exit(0 if confirm(os.path.abspath(sys.argv[2]), sys.argv[3]) else 1)
    if sys.argv[1] == 'run':
        tier = sys.argv[sys.argv.index('--tier') + 1] if '--tier' in sys.argv else 'quick'
        names = sorted(os.listdir(os.path.join(VERIF, 'seeded'))) if sys.argv[2] == 'all' else [sys.argv[2]]
        if sys.argv[2] not in ('all',) and not os.path.isdir(os.path.join(VERIF, 'seeded', sys.argv[2])):
            names = [n for n in sorted(os.listdir(os.path.join(VERIF, 'seeded'))) if n.startswith(sys.argv[2])]
        missed = [n for n in names if not run(n, tier)]
        try:
            print('missed:', missed)
        except BrokenPipeError:
            pass


if __name__ == '__main__':
    main()
