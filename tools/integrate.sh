#!/bin/bash
# tools/integrate.sh <k>: merge the clone /dev/shm/w<k>/verif into /verif; generated files (evidence, MANIFEST, known_findings.json) are regenerated
k=$1
cd /verif
git pull --no-edit /dev/shm/w$k/verif main >/dev/shm/integrate.log 2>&1
for f in $(git diff --name-only --diff-filter=U); do
  case "$f" in
    evidence/*|MANIFEST.json|known_findings.json) git checkout --ours -- "$f" 2>/dev/null; git add "$f";;
    *) echo "CONFLICT needs hand: $f";;
  esac
done
git diff --name-only --diff-filter=U
