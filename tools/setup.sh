#!/bin/bash
# MANIFEST.setup_cmd: build the Lean side from files on disk only (offline)
set -e
cd "$(dirname "$0")/.."
python3 tools/gen_lean_roots.py
cd lean
lake build
