#!/bin/bash
# tools/run_all.sh [tier] : every claimed check once; prints one line per property
cd "$(dirname "$0")/.."
tier=${1:-quick}
fail=0
for p in $(python3 -c "import json; print(' '.join(c['property_id'] for c in json.load(open('MANIFEST.json'))['checks']))"); do
  out=$(./check $p --tier $tier 2>&1); rc=$?
  echo "$p rc=$rc $(echo "$out" | grep -c '^VIOLATION') violations, $(echo "$out" | grep -c '^KNOWN-FINDING') known | $(echo "$out" | tail -1 | cut -c1-140)"
  [ $rc -ne 0 ] && fail=1
done
exit $fail
