NOTES = ("Every check: (1) regenerates the generated Lean definitions from /repo's working tree and runs `lake build` (theorems re-checked), "
         "(2) audits axioms (allowed: propext, Classical.choice, Quot.sound) and greps for sorry/native_decide/axiom, "
         "(3) replays corpus/<id>, runs generated cases through the implementation and the compiled Lean model and diffs canonicalised replies, "
         "(4) applies the property's laws to the implementation's own outputs. Exit 0 / 1 (VIOLATION line) / 2 (machinery failure).")
NOT_APPLICABLE = {}
CHECKS = {
 'C07': dict(
   text=("Proof: Lean 4 theorems (Pyg.Props.C07.*) show for ALL values of the modelled universe that the model of cmp is total, antisymmetric, "
         "transitive, 0 on numerically equal int/float, NaN on top, and that sort / dictable.sort are stable sorted permutations (idempotent). "
         "The model is hand-written; it is tied to the code on every run by a correspondence check (all 3600+ pairs of a 60-value mixed-type universe, random nested values, "
         "random lists and key columns) and the laws are additionally checked on the implementation's own outputs (all pairs and all 216k triples)."),
   note=("Trusted: Lean kernel; axioms propext/Classical.choice/Quot.sound; the hand-written model PygModel/Cmp.lean+Sort.lean and the correspondence harness. "
         "Modelled, not verified: CPython's native comparisons and str(type(.)) ranking, timsort (assumed a stable sort determined by comparison outcomes), as_primitive's normalisation of numpy scalars and dates; "
         "object identity is outside the model. Agreement of native sorted() with cmp on NaN-free input is sampled, not proved.")),
}
