#!/bin/bash
# tools/integrate_dir.sh <dir>: merge the clone <dir>/verif into /verif (generated files keep ours and are regenerated)
cd /verif
git pull --no-edit $1/verif main >/dev/shm/integrate.log 2>&1
for f in $(git diff --name-only --diff-filter=U); do
  case "$f" in
    evidence/*|MANIFEST.json|known_findings.json|anchors.json) git checkout --ours -- "$f" 2>/dev/null; git add "$f";;
    *) echo "CONFLICT needs hand: $f";;
  esac
done
