#!/usr/bin/env python3
"""resolve every conflict hunk of a file by keeping OUR side"""
import re, sys
for p in sys.argv[1:]:
    s = open(p).read()
    s = re.sub(r"<<<<<<< HEAD\n(.*?)=======\n.*?>>>>>>> [0-9a-f]+\n", r"\1", s, flags=re.S)
    open(p, 'w').write(s)
