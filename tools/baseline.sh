#!/bin/bash
# runs the repository's pinned baseline (guard OFF) and compares with BASELINE.json stable_pass
unset PYG_BASE_VERIF
out=$(mktemp /dev/shm/junit.XXXXXX.xml)
(cd "${PYG_REPO:-/repo}" && PYTHONPATH="${PYG_REPO:-/repo}/src" /venv/bin/python -m pytest -ra -q -p no:cacheprovider --timeout=900 --continue-on-collection-errors --junitxml=$out >/dev/null 2>&1)
/venv/bin/python - "$out" <<'PY'
import sys, json, xml.etree.ElementTree as ET
base = set(json.load(open('/root/.vp/BASELINE.json'))['stable_pass'])
passed = set()
for tc in ET.parse(sys.argv[1]).getroot().iter('testcase'):
    if not any(c.tag in ('failure', 'error', 'skipped') for c in tc):
        passed.add('%s::%s' % (tc.get('classname'), tc.get('name')))
missing = sorted(base - passed)
print('baseline: %d/%d stable tests pass; extra passing: %d' % (len(base & passed), len(base), len(passed - base)))
for m in missing: print('  MISSING', m)
sys.exit(1 if missing else 0)
PY
rc=$?
rm -f $out
exit $rc
