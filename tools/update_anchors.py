#!/usr/bin/env python3
"""records the fingerprint (sha1 of the normalised AST, so comments / blank lines do not count) of every source file a property is
anchored in, as it is in /repo now -> anchors.json.  The checks compare the working tree with it: when an anchored file differs from
the recorded state they search harder (pv.engine: boost).  Run after every `fix:` commit (tools/gen_manifest.py does it)."""
import hashlib, json, os, sys
here = os.path.dirname(os.path.abspath(__file__))
REPO = os.environ.get('PYG_REPO', '/repo')


def fingerprint(path):
    """sha1 of the token stream without comments, blank lines and layout (the same under every python version)"""
    import tokenize, io
    try:
        src = open(path, 'rb').read()
        toks = []
        for t in tokenize.tokenize(io.BytesIO(src).readline):
            if t.type in (tokenize.COMMENT, tokenize.NL, tokenize.NEWLINE, tokenize.INDENT, tokenize.DEDENT, tokenize.ENCODING, tokenize.ENDMARKER):
                if t.type in (tokenize.INDENT, tokenize.DEDENT, tokenize.NEWLINE):
                    toks.append(tokenize.tok_name[t.type])
                continue
            toks.append(t.string)
        return hashlib.sha1('\x00'.join(toks).encode()).hexdigest()
    except Exception as e:
        return 'unreadable:' + type(e).__name__


def main():
    files = set()
    for l in open(os.path.join(here, '..', 'properties.jsonl')):
        files.update(json.loads(l)['anchors']['files'])
    out = {f: fingerprint(os.path.join(REPO, f)) for f in sorted(files)}
    json.dump(out, open(os.path.join(here, '..', 'anchors.json'), 'w'), indent=1)
    print('anchors: %d files' % len(out))


if __name__ == '__main__':
    main()
